#!/bin/bash
# Entry point of every MANIFEST command. Rebuilds the harness against /repo's
# current working tree (Go's build cache makes this cheap when nothing changed).
set -u
cd "$(dirname "$0")"
VERIF=$(pwd)
. ./env.sh
export VERIF_DIR=$VERIF
mkdir -p bin work evidence

build() { # variant
  local v=$1 out=bin/vcheck flags=""
  case "$v" in
    "") ;;
    race) out=bin/vcheck-race; flags="-race" ;;
    cover) out=bin/vcheck-cover; flags="-cover -covermode=atomic -coverpkg=github.com/coregx/coregex/...,verif/cmd/vcheck" ;;
    asan) out=bin/vcheck-asan; flags="-asan" ;;
  esac
  # build under a lock into a temporary name and rename: a check that is running keeps its binary (old inode),
  # and two checks started at the same time never see a half-written file
  (
    flock 9
    tmp="$out.tmp.$$"
    (cd harness && cp /repo/go.sum go.sum 2>/dev/null; $GO build -tags verif $flags -o "../$tmp" ./cmd/vcheck) || { rm -f "$tmp"; exit 2; }
    if [ -f "$out" ] && cmp -s "$tmp" "$out"; then rm -f "$tmp"; else mv -f "$tmp" "$out"; fi
  ) 9>bin/.build.lock || { echo "INCONCLUSIVE: harness build failed ($v)"; exit 2; }
}

cmd=${1:-}
case "$cmd" in
  setup)
    build ""; build race; build cover
    ;;
  check|baseline|explore)
    build ""
    need=$(bin/vcheck needs "$2")
    for v in $need; do build "$v"; done
    shift 0
    exec bin/vcheck "$@"
    ;;
  replay|case|probe|pcase)
    build ""
    exec bin/vcheck "$@"
    ;;
  *)
    echo "usage: run.sh setup | check Cnn quick|thorough | replay <file> | baseline Cnn | explore Cnn from to"; exit 2 ;;
esac
