# sourced by run.sh: pins the toolchain and offline module settings
export GOTOOLCHAIN=local GOFLAGS=-mod=mod GOPROXY=off GOSUMDB=off
_modcache=$(go env GOMODCACHE 2>/dev/null || echo /root/go/pkg/mod)
GO="$_modcache/golang.org/toolchain@v0.0.1-go1.25.4.linux-amd64/bin/go"
if [ ! -x "$GO" ]; then GO=$(command -v go1.26 || command -v go); fi
export GO
