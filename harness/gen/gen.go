// Package gen is the indexed case universe G(family, i): every case is a pure
// function of a family name and an integer index. Generation never consults
// the code under test (only regexp/syntax for validity and language sampling).
package gen

import (
	"fmt"
	"hash/fnv"
	"math/rand/v2"
	"regexp/syntax"
	"strings"
	"unicode/utf8"
)

// Version is bumped whenever generation changes; case lists record it.
const Version = "g14"

// Region of a case (chosen by index so that budgets per region are fixed).
type Region int

const (
	ASCII Region = iota
	UTF8
	Illformed
)

func (r Region) String() string { return [...]string{"ascii", "utf8", "illformed"}[r] }

type Case struct {
	Index     uint64
	Family    string // which pattern source produced it
	Region    Region
	Pattern   string
	Haystacks [][]byte
	Templates []string // replacement templates (C08)
	Ns        []int    // limits for FindAll (C04)
}

func Rng(family string, i uint64) *rand.Rand {
	h := fnv.New64a()
	h.Write([]byte(family))
	return rand.New(rand.NewPCG(h.Sum64(), i*0x9E3779B97F4A7C15+1))
}

var asciiLits = []string{"a", "b", "c", "ab", "abc", "foo", "bar", "x", "0", "1", "@", "-", `\.`, " ", `\n`, "z", "A", "foobar", "k", "s"}
var asciiClasses = []string{"[a-c]", "[0-9]", "[a-z]", "[ab]", "[^a]", `[^\n]`, `\d`, `\D`, `\w`, `\W`, `\s`, `\S`, "[[:alpha:]]", "[^[:alpha:]]", "[a-zA-Z]", "[A-Z]", `[\w.]`, "[x-z0-3]", "[[:^digit:]]", "[b-y]"}
var dots = []string{".", "(?s:.)"}
var folds = []string{"(?i:a)", "(?i:foo)", "(?i:k)", "(?i:s)", "(?i:ab)", "(?i:z1)"}
var nonASCII = []string{"é", "я", "日", "😀", "[α-ω]", "[é日]", `\pL`, `\PL`, `\p{Greek}`, "[^é]", "(?i:é)", "(?i:привет)", `\p{Lu}`, `[\x{80}-\x{7ff}]`, "ſ", "(?i:σ)", `\p{Han}`, `[^\x{0}-\x{7f}]`, "ü", "(?i:ǆ)"}
var asserts = []string{"^", "$", `\A`, `\z`, "(?m:^)", "(?m:$)", `\b`, `\B`}
var quants = []string{"*", "+", "?", "*?", "+?", "??", "{2}", "{1,3}", "{2,}", "{0,2}", "{1,2}?", "{0}", "{3,5}", "{0,1}?"}

// Exemplars: patterns that the pinned tree routes to each strategy (Appendix B.3).
var Exemplars = []string{
	`a*`, `(?:|a)*`, `\bfoo\b`, `\b\w+\b`, `(?s).*`,
	`a`, `abc`, `a*b`, `(a|b)*abb`, `foo\d+`, `(foo|foobar)\d+`, `a.*b.*c`, `x.*keyword.*y`, `(\w+)-(\d+)`, `a.c`, `(?i)hello|world|there`, `foo\b.*bar`,
	`(?m)^.*error$`, `\S\b`, `(?m:$)(.)`, `(?s:.)+\d[a-c]`, `(.|bar|[a-z]|\n)+x`,
	`abc$`, `\w+\.com$`, `(a|b)+c$`, `a.*b.*c$`,
	`.*\.txt`, `.+\.txt`, `[^\s]+\.txt`, `\w+@\w+\.com`, `[0-9]+x`, `[a-c]{2,8}x[d-f]{3}y[g-i]+z`,
	`.*\.(txt|log|md)`,
	`.*keyword.*`, `[\w.]+@[\w.]+`,
	`(?m)^/.*\.php`, `(?m)^/.*[\w-]+\.php`,
	`^abc`, `^(\w+)-(\d+)$`, `^\d+$`, `a|b`, `[a-z]*`, `(a|b|c)+`, `([a-z])+[0-9]`, `(\w{2,8})+`,
	`\w+`, `[a-z]+`, `\d+`, `[\w]+`,
	`[a-zA-Z]+[0-9]+`, `\d+\s+\w+`, `[a-z]+[a-z]+[0-9]`,
	`.+a.{4}`, `.+foo\d`, `[0-5]+\.[a-z]`, `[1-9][0-9]*x`, `(?i)^k\d+`, `^(?i:s)[a-z]+`, `aaa|foobar|bbb|ccc|ddd|eee|fff|ggg|foo`, `(?m)^(?:foo|bar|baz)`,
	`\d+.aa`, `[a-z]+.aba`, `(?s).*foo`, `(\w\w?)`, `[0-9][a-z.]+\.txt`, `(a)|(b)`, `(\d+)(?:\.(\d+))?`, `^|,`, `(?P<bob>a+)(?P<bob>b+)`, `(get|getter)s?`,
	`[a-z]+[0-9]+[A-Z]+`, `[a-c]+[0-9]+[x-z]+-+`, `\d+[a-z]+\d+`,
	`[ax]+[by]+[ax]+[cz]+`, `[a-c]+[0-9]+[a-c]+x+`, `\w+[0-9]+\w+-+`, `[ab]+[bc]+[ab]+[cd]+`, `[a-c]+[b-d]+[c-e]+`,
	`^(\d+|UUID|hex32)`, `^(foo|bar)`,
	`foo|bar|baz`, `(?i)hello`,
	`\d+\.\d+\.\d+\.\d+`, `[0-9]+\.[0-9]+`,
	`(?:25[0-5]|2[0-4][0-9]|[01]?[0-9][0-9]?)\.(?:25[0-5]|2[0-4][0-9]|[01]?[0-9][0-9]?)`,
	`^/.*\.php$`, `^/.*[\w-]+\.php$`, `^api/v1/.*\.json$`,
	`(a+)(b+)?`, `(a|ab)(c|bcd)(d*)`, `(\d+)-(\d+)-(\d+)`, `(?P<year>\d{4})-(?P<month>\d{2})`,
	`error|warn|fatal|panic|debug|trace|info|notice`, `[A-Z][a-z]+\s[A-Z][a-z]+`,
	`https?://[^\s]+`, `\s+`, `"[^"]*"`, `(?i)[a-z]+ing\b`, `\b[0-9a-f]{8}\b`,
	`x*`, `(?:a|b)*c`, `a{2,4}`, `(ab)+`, `a+?b`, `.*?foo`, `(a*)*b`, `(a|aa)*b`, `(x+x+)+y`,
	`[^,]*,`, `^\s*$`, `(?m)^\s*$`, `\Afoo\z`, `^$`, `\b`, `\B`, `$`, `^`, `(?m)$`, `(?m)^`,
}

// ManyLiterals returns an alternation of n pseudo-random distinct words.
func ManyLiterals(r *rand.Rand, n int, sharedPrefix bool) string {
	seen := map[string]bool{}
	var ws []string
	for len(ws) < n {
		l := 3 + r.IntN(4)
		b := make([]byte, l)
		for j := range b {
			b[j] = byte('a' + r.IntN(26))
		}
		w := string(b)
		if sharedPrefix {
			w = "pre" + w
		}
		if !seen[w] {
			seen[w] = true
			ws = append(ws, w)
		}
	}
	return strings.Join(ws, "|")
}

type pgen struct {
	r      *rand.Rand
	region Region
	caps   int
}

func pick[T any](r *rand.Rand, xs []T) T { return xs[r.IntN(len(xs))] }

func (g *pgen) atom() string {
	r := g.r
	k := r.IntN(100)
	switch {
	case k < 34:
		return pick(r, asciiLits)
	case k < 60:
		return pick(r, asciiClasses)
	case k < 68:
		return pick(r, dots)
	case k < 74:
		return pick(r, folds)
	case k < 86:
		if g.region != ASCII {
			return pick(r, nonASCII)
		}
		return pick(r, asciiLits)
	case k < 96:
		return pick(r, asserts)
	default:
		return "(?:)"
	}
}

func (g *pgen) node(depth int) string {
	r := g.r
	if depth <= 0 {
		return g.atom()
	}
	switch k := r.IntN(100); {
	case k < 25:
		return g.atom()
	case k < 50: // concat
		n := 2 + r.IntN(3)
		var sb strings.Builder
		for i := 0; i < n; i++ {
			sb.WriteString(g.node(depth - 1))
		}
		return sb.String()
	case k < 65: // alternation
		n := 2 + r.IntN(3)
		parts := make([]string, n)
		for i := range parts {
			parts[i] = g.node(depth - 1)
		}
		if r.IntN(8) == 0 {
			parts[r.IntN(n)] = ""
		}
		return g.group(strings.Join(parts, "|"))
	case k < 88: // quantifier
		return g.group(g.node(depth-1)) + pick(r, quants)
	case k < 94: // capture
		return g.group(g.node(depth - 1))
	default: // flag group
		return "(?" + pick(r, []string{"i", "m", "s", "U", "is", "im"}) + ":" + g.node(depth-1) + ")"
	}
}

func (g *pgen) group(s string) string {
	switch g.r.IntN(10) {
	case 0, 1, 2, 3:
		g.caps++
		return "(" + s + ")"
	case 4:
		g.caps++
		return fmt.Sprintf("(?P<n%d>%s)", g.caps, s)
	default:
		return "(?:" + s + ")"
	}
}

// mutate applies one whitelist-boundary mutation (Appendix B.4) to pattern p.
func mutate(r *rand.Rand, p string, region Region) string {
	switch r.IntN(16) {
	case 0: // lazy-fy a quantifier
		for _, q := range []string{"+", "*", "}", "?"} {
			if i := indexNth(p, q, r.IntN(3)); i >= 0 {
				return p[:i+1] + "?" + p[i+1:]
			}
		}
	case 1: // swap quantifier
		if i := strings.IndexAny(p, "+*"); i >= 0 {
			return p[:i] + pick(r, []string{"*", "+", "?", "{0,3}", "{2,}", "{1,2}"}) + p[i+1:]
		}
	case 2:
		return "(" + p + ")"
	case 3:
		return "(?:" + p + ")" + pick(r, []string{"", "+", "*", "?"})
	case 4:
		return "(?" + pick(r, []string{"i", "m", "s", "U"}) + ")" + p
	case 5:
		return pick(r, asciiLits) + p
	case 6:
		return p + pick(r, asciiLits)
	case 7:
		return pick(r, asserts) + p
	case 8:
		return p + pick(r, asserts)
	case 9:
		if region != ASCII {
			if i := strings.IndexAny(p, "abcfox"); i >= 0 {
				return p[:i] + pick(r, []string{"é", "я", "日", "😀"}) + p[i+1:]
			}
		}
		return p + pick(r, asciiClasses)
	case 10:
		return "(?:" + p + "|" + pick(r, []string{"", "a", "foo", "fo", p}) + ")"
	case 11:
		return pick(r, asciiClasses) + pick(r, []string{"+", "*", ""}) + p
	case 12:
		return p + pick(r, asciiClasses) + pick(r, []string{"+", "*", "", "?"})
	case 13:
		return strings.Replace(p, ".", pick(r, []string{`[^\n]`, "(?s:.)", `\w`}), 1)
	case 14:
		return strings.Replace(p, "$", pick(r, []string{`\z`, "(?m:$)", `\b`}), 1)
	case 15:
		return p + "|" + pick(r, Exemplars)
	}
	return "(?:" + p + ")"
}

func indexNth(s, sub string, n int) int {
	idx, off := -1, 0
	for k := 0; k <= n; k++ {
		j := strings.Index(s[off:], sub)
		if j < 0 {
			return idx
		}
		idx = off + j
		off = idx + len(sub)
	}
	return idx
}

// Valid reports whether stdlib's parser accepts p (the only validity judge).
func Valid(p string) (*syntax.Regexp, bool) {
	re, err := syntax.Parse(p, syntax.Perl)
	if err != nil {
		return nil, false
	}
	// stdlib Compile may still reject (program too large)
	if _, err := syntax.Compile(re.Simplify()); err != nil {
		return nil, false
	}
	return re, true
}

// RegionOf assigns regions by index: 80% ascii, 14% utf8, 6% illformed
// (regions in which the pinned tree has open findings get a bounded share).
func RegionOf(i uint64) Region {
	switch m := i % 50; {
	case m < 40:
		return ASCII
	case m < 47:
		return UTF8
	default:
		return Illformed
	}
}

// Pattern returns the pattern of case i of the differential universe.
func Pattern(r *rand.Rand, i uint64, region Region) (string, string) {
	for try := 0; ; try++ {
		var p, fam string
		switch k := r.IntN(100); {
		case k < 8:
			p, fam = pick(r, Exemplars), "exemplar"
		case k < 40:
			p, fam = mutate(r, pick(r, Exemplars), region), "mutant1"
			if r.IntN(3) == 0 {
				p, fam = mutate(r, p, region), "mutant2"
			}
		case k < 43:
			n := pick(r, []int{2, 3, 5, 8, 9, 20, 40, 70})
			p, fam = ManyLiterals(r, n, r.IntN(4) == 0), "literals"
			if r.IntN(3) == 0 {
				p = mutate(r, p, region)
			}
		case k < 46:
			// long literal / long match families
			n := pick(r, []int{63, 64, 65, 70, 99, 100, 101, 130})
			switch r.IntN(3) {
			case 0:
				p = strings.Repeat("abcdefghij", n/10+1)[:n]
			case 1:
				p = fmt.Sprintf("a[a-z]{%d,}z", n)
			default:
				p = fmt.Sprintf("(?:ab){%d}c?", n/2)
			}
			fam = "long"
		default:
			g := &pgen{r: r, region: region}
			p, fam = g.node(1+r.IntN(3)), "random"
		}
		if len(p) > 600 {
			continue
		}
		if _, ok := Valid(p); ok {
			return p, fam
		}
	}
}

// D returns case i of the differential universe (shared by C01-C04, C08, C10-C13).
func D(i uint64) Case {
	if i >= WitnessBase {
		return witness(i)
	}
	r := Rng("D", i)
	region := RegionOf(i)
	p, fam := Pattern(r, i, region)
	re, _ := Valid(p)
	c := Case{Index: i, Family: fam, Region: region, Pattern: p}
	nh := 6
	c.Haystacks = Haystacks(r, re, region, nh)
	c.Templates = Templates(r, re)
	c.Ns = []int{-1, 0, 1, 2, pick(r, []int{3, 5, 1 << 30, -7})}
	return c
}

// ---------------------------------------------------------------------------
// Language sampling

type sampler struct {
	r      *rand.Rand
	region Region
	budget int
}

// Sample returns a string likely to be in L(re) (exactly in L(re) when re has no
// assertions); used to build haystacks and for C17 (validated there by stdlib).
func Sample(r *rand.Rand, re *syntax.Regexp, region Region) []byte {
	s := &sampler{r: r, region: region, budget: 300}
	var out []byte
	s.walk(re, &out)
	return out
}

func (s *sampler) rune(lo, hi rune) rune {
	// prefer boundaries
	switch s.r.IntN(4) {
	case 0:
		return lo
	case 1:
		return hi
	}
	if hi > lo {
		return lo + rune(s.r.Int64N(int64(hi-lo)+1))
	}
	return lo
}

func (s *sampler) anyRune(notNL bool) rune {
	var pool []rune
	switch s.region {
	case ASCII:
		pool = []rune("abcxyz019 .-@_AZ\n/")
	default:
		pool = []rune("abxz09 .-\néя日😀ſKα_/")
	}
	for {
		c := pick(s.r, pool)
		if notNL && c == '\n' {
			continue
		}
		return c
	}
}

func (s *sampler) walk(re *syntax.Regexp, out *[]byte) {
	if s.budget <= 0 {
		return
	}
	switch re.Op {
	case syntax.OpLiteral:
		for _, c := range re.Rune {
			if re.Flags&syntax.FoldCase != 0 && s.r.IntN(2) == 0 {
				c = foldVariant(s.r, c)
			}
			*out = utf8.AppendRune(*out, c)
		}
	case syntax.OpCharClass:
		if len(re.Rune) == 0 {
			return
		}
		// restrict to ASCII ranges in ASCII region when possible
		k := s.r.IntN(len(re.Rune) / 2)
		lo, hi := re.Rune[2*k], re.Rune[2*k+1]
		if s.region == ASCII {
			for j := 0; j < len(re.Rune)/2; j++ {
				if re.Rune[2*j] < 0x80 {
					lo, hi = re.Rune[2*j], min(re.Rune[2*j+1], 0x7f)
					if s.r.IntN(2) == 0 {
						break
					}
				}
			}
		}
		c := s.rune(lo, hi)
		if c >= 0xD800 && c <= 0xDFFF {
			c = 0xE000
		}
		*out = utf8.AppendRune(*out, c)
	case syntax.OpAnyChar:
		*out = utf8.AppendRune(*out, s.anyRune(false))
	case syntax.OpAnyCharNotNL:
		*out = utf8.AppendRune(*out, s.anyRune(true))
	case syntax.OpCapture:
		s.walk(re.Sub[0], out)
	case syntax.OpConcat:
		for _, sub := range re.Sub {
			s.walk(sub, out)
		}
	case syntax.OpAlternate:
		s.walk(pick(s.r, re.Sub), out)
	case syntax.OpStar, syntax.OpPlus, syntax.OpQuest, syntax.OpRepeat:
		lo, hi := 0, 3
		switch re.Op {
		case syntax.OpPlus:
			lo, hi = 1, 4
		case syntax.OpQuest:
			hi = 1
		case syntax.OpRepeat:
			lo, hi = re.Min, re.Max
			if hi < 0 {
				hi = lo + 3
			}
		}
		n := lo
		if hi > lo {
			n = lo + s.r.IntN(hi-lo+1)
			if s.r.IntN(12) == 0 {
				n = hi
			}
		}
		for i := 0; i < n && s.budget > 0; i++ {
			s.budget--
			s.walk(re.Sub[0], out)
		}
	}
}

func foldVariant(r *rand.Rand, c rune) rune {
	// walk the simple-fold orbit a random number of steps
	n := r.IntN(3)
	for i := 0; i <= n; i++ {
		c = simpleFold(c)
	}
	return c
}

// ---------------------------------------------------------------------------
// Haystacks

// Alphabet derives noise symbols from the pattern's AST.
func Alphabet(re *syntax.Regexp, region Region) [][]byte {
	set := map[string]bool{}
	add := func(c rune) {
		if c < 0 || c > 0x10FFFF || (c >= 0xD800 && c <= 0xDFFF) {
			return
		}
		if region == ASCII && c >= 0x80 {
			return
		}
		set[string(c)] = true
	}
	var walk func(*syntax.Regexp)
	walk = func(re *syntax.Regexp) {
		switch re.Op {
		case syntax.OpLiteral:
			for _, c := range re.Rune {
				add(c)
				if re.Flags&syntax.FoldCase != 0 {
					add(simpleFold(c))
				}
			}
		case syntax.OpCharClass:
			for j := 0; j+1 < len(re.Rune) && j < 8; j += 2 {
				add(re.Rune[j])
				add(re.Rune[j+1])
				add(re.Rune[j] - 1)
				add(re.Rune[j+1] + 1)
			}
		}
		for _, s := range re.Sub {
			walk(s)
		}
	}
	walk(re)
	for _, c := range "a \n_" {
		add(c)
	}
	var out [][]byte
	keys := make([]string, 0, len(set))
	for k := range set {
		keys = append(keys, k)
	}
	sortStrings(keys)
	for _, k := range keys {
		out = append(out, []byte(k))
	}
	switch region {
	case UTF8:
		out = append(out, []byte("é"), []byte("日"), []byte("😀"))
	case Illformed:
		out = append(out, []byte("é"), []byte{0x80}, []byte{0xc3}, []byte{0xff}, []byte{0xe2, 0x82}, []byte{0xed, 0xa0, 0x80}, []byte{0xc0, 0xaf}, []byte{0xf0, 0x9f})
	}
	return out
}

func sortStrings(a []string) {
	for i := 1; i < len(a); i++ {
		for j := i; j > 0 && a[j] < a[j-1]; j-- {
			a[j], a[j-1] = a[j-1], a[j]
		}
	}
}

var sizeLadder = []int{0, 1, 2, 3, 5, 8, 15, 16, 17, 31, 32, 33, 63, 64, 65, 99, 100, 101, 127, 128, 129, 200}

func bytesRepeat(b []byte, n int) []byte {
	var out []byte
	for i := 0; i < n; i++ {
		out = append(out, b...)
	}
	return out
}

func noise(r *rand.Rand, alpha [][]byte, n int) []byte {
	var b []byte
	for len(b) < n {
		b = append(b, pick(r, alpha)...)
	}
	return b
}

// Haystacks returns k haystacks derived from the pattern.
func Haystacks(r *rand.Rand, re *syntax.Regexp, region Region, k int) [][]byte {
	alpha := Alphabet(re, region)
	var hs [][]byte
	for len(hs) < k {
		var h []byte
		switch m := r.IntN(20); {
		case m < 2: // pure noise of ladder size
			h = noise(r, alpha, pick(r, sizeLadder))
		case m == 8: // overlap: a sample whose first/last bytes are repeated around it (overlapping
			// occurrences of a suffix/prefix literal, e.g. "1aaa" for \d+.aa) or that lacks its first byte at offset 0
			s := Sample(r, re, region)
			if len(s) > 0 {
				switch r.IntN(4) {
				case 0:
					h = append(append(h, s...), bytesRepeat(s[len(s)-1:], 1+r.IntN(2))...)
				case 1:
					h = append(append(h, bytesRepeat(s[:1], 1+r.IntN(2))...), s...)
				case 2:
					h = append(h, s[1:]...) // the literal part at offset 0 without what has to precede it
					h = append(h, noise(r, alpha, r.IntN(3))...)
				default:
					k := 1 + r.IntN(min(3, len(s)))
					h = append(append(h, s...), s[len(s)-k:]...)
				}
			}
		case m < 9: // sample embedded in noise
			h = append(h, noise(r, alpha, pick(r, []int{0, 0, 1, 2, 3, 7, 16, 31, 40, 100}))...)
			h = append(h, Sample(r, re, region)...)
			h = append(h, noise(r, alpha, pick(r, []int{0, 0, 1, 2, 5, 17, 33}))...)
		case m < 12: // several samples
			n := 2 + r.IntN(4)
			for j := 0; j < n; j++ {
				h = append(h, Sample(r, re, region)...)
				h = append(h, noise(r, alpha, r.IntN(4))...)
			}
		case m < 15: // near miss: sample with one edit
			h = Sample(r, re, region)
			if len(h) > 0 {
				j := r.IntN(len(h))
				switch r.IntN(3) {
				case 0:
					h = append(h[:j:j], h[j+1:]...)
				case 1:
					h = append(h[:j:j], append(append([]byte{}, pick(r, alpha)...), h[j:]...)...)
				default:
					h = append(h[:j:j], append(append([]byte{}, pick(r, alpha)...), h[j+1:]...)...)
				}
			}
			h = append(noise(r, alpha, r.IntN(5)), h...)
		case m < 16: // restart: a proper prefix of a sample directly followed by a whole sample (a failed attempt
			// whose consumed region contains the start of the real match), e.g. "ab"+"abac" for [ax]+[by]+[ax]+[cz]+
			s := Sample(r, re, region)
			if len(s) > 1 {
				for q := r.IntN(3); q >= 0; q-- {
					h = append(h, s[:1+r.IntN(len(s)-1)]...)
				}
			}
			h = append(h, s...)
			h = append(h, noise(r, alpha, r.IntN(3))...)
		case m < 17: // repetition of sample minus last, then sample
			s := Sample(r, re, region)
			if len(s) > 1 {
				cut := s[:len(s)-1]
				n := 1 + r.IntN(6)
				for j := 0; j < n; j++ {
					h = append(h, cut...)
				}
			}
			if r.IntN(2) == 0 {
				h = append(h, s...)
			}
		case m < 18: // short exhaustive-ish strings
			h = noise(r, alpha, r.IntN(5))
		case m < 19: // long match / long haystack
			s := Sample(r, re, region)
			h = noise(r, alpha, pick(r, []int{120, 300, 1000, 4096}))
			h = append(h, s...)
			h = append(h, noise(r, alpha, r.IntN(40))...)
		default: // empty or tiny
			h = []byte(pick(r, []string{"", "a", "\n", " ", "ab"}))
		}
		if len(h) > 6000 {
			h = h[:6000]
		}
		if region == ASCII {
			for j := range h {
				if h[j] >= 0x80 {
					h[j] = 'q'
				}
			}
		}
		if region == UTF8 && !utf8.Valid(h) {
			h = []byte(strings.ToValidUTF8(string(h), "é"))
		}
		hs = append(hs, h)
	}
	return hs
}

// Templates returns replacement templates for C08.
func Templates(r *rand.Rand, re *syntax.Regexp) []string {
	names := re.CapNames()
	pieces := []string{"$0", "$1", "$2", "$10", "$1x", "${1}x", "${2}", "$$", "$", "${", "$}", "${1", "$é", "x", "-", "", "$n1", "${n1}", "${n2}y", "$nope", "${nope}", "$1$2", "${10}", "$01", "${01}", "$_", "$1_", "${ 1}", "$-1", "\\1"}
	for _, n := range names {
		if n != "" {
			pieces = append(pieces, "$"+n, "${"+n+"}")
		}
	}
	var ts []string
	for i := 0; i < 4; i++ {
		n := 1 + r.IntN(3)
		var sb strings.Builder
		for j := 0; j < n; j++ {
			sb.WriteString(pick(r, pieces))
		}
		ts = append(ts, sb.String())
	}
	return ts
}

// ---------------------------------------------------------------------------
// P: arbitrary strings offered as patterns (C09, C07).

var tokens = []string{"a", "b", "(", ")", "[", "]", "{", "}", "*", "+", "?", "|", "^", "$", ".", `\`, `\d`, `\w`, `\b`, `\pL`, `\p{Greek}`, `\P{`, "(?", "(?i)", "(?P<n>", "(?:", ":", "-", ",", "1", "2", "0", "{2,3}", "{3,2}", "{1001}", "{,3}", "[^", "[:alpha:]", "[[:alpha:]]", "[a-", "z-a", `\x{`, `\x{10FFFF}`, `\x{110000}`, `\Q`, `\E`, `\z`, `\A`, `\C`, `\8`, "\xff", "\xc3", "é", "日", "`", `"`, "'", "\n", " ", "(?s)", "(?U)", "(?m)", "(?-i)", "(?i-s:", "**", "+?", "??", "(?P<", "(?P<n>a)(?P<n>b)", "(?<n>", "\\pN", "[[.a.]]", "[[=a=]]", `\_`, `\-`, "(?#c)", "(?=a)", "(?!a)", "(?<=a)"}

// PString returns case i of the pattern-string universe.
func PString(i uint64) (string, string) {
	r := Rng("P", i)
	switch k := r.IntN(100); {
	case k < 25: // valid pattern from the D generator
		p, _ := Pattern(r, i, RegionOf(i))
		return p, "valid"
	case k < 55: // one-token mutation of a valid pattern
		p, _ := Pattern(r, i, RegionOf(i))
		if len(p) > 200 {
			p = p[:200]
		}
		j := r.IntN(len(p) + 1)
		switch r.IntN(3) {
		case 0:
			return p[:j] + pick(r, tokens) + p[j:], "mutated-insert"
		case 1:
			e := min(len(p), j+1+r.IntN(2))
			return p[:j] + p[e:], "mutated-delete"
		default:
			e := min(len(p), j+1)
			return p[:j] + pick(r, tokens) + p[e:], "mutated-replace"
		}
	case k < 80: // token soup
		n := 1 + r.IntN(8)
		var sb strings.Builder
		for j := 0; j < n; j++ {
			sb.WriteString(pick(r, tokens))
		}
		return sb.String(), "soup"
	case k < 86: // nesting family
		d := pick(r, []int{1, 5, 50, 99, 100, 101, 150, 500, 999, 1000, 1001, 1200})
		open := pick(r, []string{"(", "(?:", "(?i:"})
		body := pick(r, []string{"a", "", "a|b", "a*"})
		tail := pick(r, []string{"", "*", "?"})
		return strings.Repeat(open, d) + body + strings.Repeat(")"+tail, d), "nesting"
	case k < 92: // repetition-count family
		a := pick(r, []int{0, 1, 2, 10, 100, 500, 999, 1000, 1001, 2000})
		b := pick(r, []int{0, 1, 2, 10, 100, 500, 999, 1000, 1001})
		inner := pick(r, []string{"a", "(a)", "[a-z]", "(ab|c)", "a{2}", `\pL`, "(a{10}){10}"})
		if inner == `\pL` {
			// a Unicode class repeated hundreds of times compiles for minutes (see DESIGN, C05 compile
			// ladder); the limit families here are about acceptance, so keep the automaton small
			a, b = a%101, b%101
		}
		switch r.IntN(4) {
		case 0:
			return fmt.Sprintf("%s{%d}", inner, a), "repeat"
		case 1:
			return fmt.Sprintf("%s{%d,}", inner, a), "repeat"
		case 2:
			return fmt.Sprintf("%s{%d,%d}", inner, a, b), "repeat"
		default:
			return fmt.Sprintf("(%s{%d}){%d}", inner, a%40, b%40), "repeat"
		}
	case k < 96: // big alternation / long literal
		if r.IntN(2) == 0 {
			return ManyLiterals(r, pick(r, []int{100, 300, 1000}), false), "bigalt"
		}
		return strings.Repeat(pick(r, []string{"ab", "x", "é", `\.`}), pick(r, []int{64, 65, 500, 3000})), "longlit"
	default: // random bytes
		n := r.IntN(12)
		b := make([]byte, n)
		for j := range b {
			b[j] = byte(r.IntN(256))
		}
		return string(b), "bytes"
	}
}

// QString returns a string for QuoteMeta checks.
func QString(r *rand.Rand) string {
	n := r.IntN(10)
	var sb strings.Builder
	for j := 0; j < n; j++ {
		switch r.IntN(4) {
		case 0:
			sb.WriteString(pick(r, []string{`\`, ".", "+", "*", "?", "(", ")", "|", "[", "]", "{", "}", "^", "$", "-", "#", "&", "~", " ", "\n", "\t"}))
		case 1:
			sb.WriteByte(byte(r.IntN(256)))
		case 2:
			sb.WriteString(pick(r, []string{"é", "日", "😀", "a", "Z", "0"}))
		default:
			sb.WriteByte(byte(32 + r.IntN(95)))
		}
	}
	return sb.String()
}
