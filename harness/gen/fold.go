package gen

import "unicode"

func simpleFold(c rune) rune { return unicode.SimpleFold(c) }
