package gen

import "unicode/utf8"

// Witnesses is the fixed corpus of (pattern, haystacks) pairs that every check built on G(D,·) runs in every
// tier, in addition to the indexed universe: the witnesses of every defect of coregx/coregex that was found
// (by the checks, by the seeding/hunting sub-agents, or by hand), whether repaired or recorded as a known
// finding. A repaired witness acts as a regression case, an open one shows up as KNOWN-FINDING.
// Witness k is case index WitnessBase+k. Appending is compatible (existing indices keep their meaning);
// never reorder.
type WitnessCase struct {
	Pattern   string
	Haystacks []string
}

const WitnessBase = uint64(1) << 40

var Witnesses = []WitnessCase{
	// --- found by the checks / by hand (repaired)
	{`(a|ab)(c|bcd)(d*)`, []string{"a  _ _\ncb\n abcbcabbcdba _ "}},
	{`a*b`, []string{"zaab"}},
	{`[ax]+[by]+[ax]+[cz]+`, []string{"ababac"}},
	{`[a-c]+[b-d]+[c-e]+`, []string{"bdbaceeceb"}},
	{`.+a.{10}`, []string{"acabccaacba"}},
	{`[0-5]+\.[a-z]`, []string{"6123.a"}},
	{`.*\.txt\n`, []string{" 9z.txt\n\n\n", "a.txt\n", "a.txt\nb.txt\n"}},
	{`(a|aa){0,3}?b`, []string{"aaaba"}},
	{`((\n)?){2,}`, []string{"\n\n"}},
	{`(?:[a-zA-Z]+[0-9]+|foo)`, []string{"am9a:aL0{fooAN6`"}},
	{`tdzou|xx1|xx2|xx3|xx4|xx5|xx6|xx7|xx8|xx9|xxa|xxb|xxc|xxd|xxe|xxf|xxg|xxh|xxi|xxj|xxk|xxl|xxm|xxn|xxo|xxp|xxq|xxr|xxs|xxt|xxu|xxv|xxw|tdz`, []string{"pzktdzoum"}},
	{`b(?m:^)`, []string{"bbbbbbbb"}},
	{`\d\d[a-c]|zz`, []string{"zz", "99a"}},
	{`\b[0-9][0-9]`, []string{"a91"}},
	{`(?m)^[0-9][0-9]`, []string{"a12"}},
	{`[0-9][0-9]\b`, []string{"12a"}},
	{`[a-z]+[0-9]+[A-Z]+`, []string{"ab1cd2EF"}},
	{`\d+.aa`, []string{"1aaa", "1aa 2aaa"}},
	{`[a-z]+.aba`, []string{"xababa"}},
	{`(?s).*foo`, []string{"a\nb foo"}},
	{`aaa|foobar|bbb|ccc|ddd|eee|fff|ggg|foo`, []string{"xx foobar and some more text"}},
	{`(?m)^(?:foo|bar|baz)`, []string{"foofoo", "foobar\nbarfoo\nxfoo"}},
	{`(?:(a)x)?b`, []string{"ax b"}},
	{`(a)?(c)?b`, []string{"ac bc"}},
	{`x(?:(a*)+)*y`, []string{"xy"}},
	{`(?:(a*)+|b)*`, []string{"ba"}},
	{`(a)|(b)`, []string{"ab"}},
	{`(\d+)(?:\.(\d+))?`, []string{"3.14 42 7"}},
	{`x*`, []string{"abc"}},
	{`^|,`, []string{"a,b,c"}},
	{`\d{2}-\d{2}`, []string{"id 123-45 end"}},
	{`\d\d:\d\d`, []string{"at 112:30"}},
	{`(get|getter)s?`, []string{"getters getter get"}},
	{`get|getter`, []string{"getters getter"}},
	{`(?i)^k\d+`, []string{"\u212a1", "k1", "K1"}},
	{`(?i)^s\d+$`, []string{"\u017f42"}},
	{`(\w\w?)`, []string{"aaa aaa aaa "}},
	// --- reported by the hunting sub-agents on the clean tree
	{`(?:a.x|b){1,2}x`, []string{"abxx"}},
	{`(?:a..x|b){1,2}x`, []string{"acbxx"}},
	{`[ab]+(?:\w...|\d)f\w+`, []string{"azb1ff1"}},
	{`.*(.foo)x?`, []string{"2foo", "zz2foo", "2foox"}},
	{`.*([^n]foo)x?`, []string{"2foo"}},
	{`[a-z]+(?:.*-)?end`, []string{"x-bend-end"}},
	{`[xb]+(?:.*a)?foo`, []string{"xabfooafoo"}},
	{`[^a]+(.*a)*f`, []string{".aFfaf"}},
	{`(?:bar)?[^a]+ `, []string{"bar  "}},
	{`\d[0-9][a-c]|foo|[a-c](?:[ab]|1|(?i:ab))`, []string{"cb"}},
	{`\d\d[a-c]|[a-c][ab]`, []string{"cb"}},
	{`^\d\d|a`, []string{"z:27"}},
	{`\d+foo|\d+bar`, []string{"12121212121212121212"}},
	{`(?:\d+\.)+x`, []string{"1.1.1.1.1.1.1.1."}},
	{`^\S{8,}$`, []string{"ééééé"}},
	{`^[^,]{3}$`, []string{"日"}},
	{`[^a][^a]`, []string{"é"}},
	{`(\D)(\D)`, []string{"é"}},
	{`.*x*bar.`, []string{"bar1"}},
	{`(?s:.*)foo[\w.]+(?s:.*)`, []string{"foo"}},
	{`[\x{D800}\x{D801}]abc`, []string{"xx\uFFFDabc"}},
	{`\x{D800}abc`, []string{"xx\uFFFDabc"}},
	{`\pL+`, []string{"abc def 123 abc def 123 "}},
	{`\d+(.aa)x*`, []string{"1baa", "1baa      2aaa"}},
	{`.*b?c\d+`, []string{"c1"}},
	{`.*.?xyz.+`, []string{"xyzz"}},
	{`(?:.|xyz){2}a`, []string{"acaxyzaa"}},
	{`[a-z]{3}(?:abc)?c`, []string{"cbbabcc"}},
	{`(|bc){2}c`, []string{"bcc"}},
	{`.*c(?:\nb|cd)`, []string{"ccdc\nb"}},
	{`^.*[α-ω]+\.txt$`, []string{"a/λ.txt"}},
	{`^.*[©®]+x$`, []string{"éx"}},
	{`\d\d[a-c]|b`, []string{"b"}},
	{`(?:\d\d[a-c]|b)\W*`, []string{"b"}},
	{`\d\d[a-c]foo`, []string{"x99cfoo"}},
	{`x\S\Sy`, []string{"xéy"}},
	{`a[ab]{14}c`, []string{"abababababababababababab"}},
	{`(?:a?){60}b`, []string{"xx aab aab aab"}},
	{`\d\w*-`, []string{"11111111111111111111"}},
	{`(?m)^.*\d\.php`, []string{"x.php.php.php.php.php"}},
	// --- boundary bytes of the ASCII-only automata (appended after the g14 baseline: appending does not renumber)
	{`^a.c`, []string{"a\x7fc", "a\x00c", "a\x0bc"}},
	{`^(.)(.)$`, []string{"\x7fz", "z\x7f"}},
	{`\Aa.*b.*c$`, []string{"a\x00zb\x7fc"}},
}

func witness(i uint64) Case {
	k := int(i - WitnessBase)
	if k >= len(Witnesses) {
		k = len(Witnesses) - 1
	}
	wc := Witnesses[k]
	c := Case{Index: i, Family: "witness", Pattern: wc.Pattern, Region: ASCII}
	for _, h := range wc.Haystacks {
		c.Haystacks = append(c.Haystacks, []byte(h))
		switch {
		case !utf8.ValidString(h):
			c.Region = Illformed
		case c.Region == ASCII && !isASCII(h):
			c.Region = UTF8
		}
	}
	r := Rng("W", i)
	if re, ok := Valid(wc.Pattern); ok {
		// the given haystacks first, then derived ones up to the usual six
		if n := 6 - len(c.Haystacks); n > 0 {
			c.Haystacks = append(c.Haystacks, Haystacks(r, re, c.Region, n)...)
		}
		c.Templates = Templates(r, re)
	} else {
		c.Templates = []string{"$0", "$1", "x"}
	}
	c.Ns = []int{-1, 0, 1, 2, 3}
	return c
}

func isASCII(s string) bool {
	for i := 0; i < len(s); i++ {
		if s[i] >= 0x80 {
			return false
		}
	}
	return true
}
