module verif

go 1.25.4

require (
	github.com/coregx/coregex v0.0.0
	golang.org/x/sys v0.40.0
)

require github.com/coregx/ahocorasick v0.3.0

replace github.com/coregx/coregex => /repo
