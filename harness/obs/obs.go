// Package obs executes API groups on a regexp-like value and renders each
// result in a canonical observable form (what the property statements compare:
// booleans, offsets, byte contents, nil-ness where nil is the no-match signal).
package obs

import (
	"bytes"
	"fmt"
	"io"
	"strconv"
	"strings"
	"unicode/utf8"
)

// RE is the method set shared by *regexp.Regexp and *coregex.Regex.
type RE interface {
	Match([]byte) bool
	MatchString(string) bool
	MatchReader(io.RuneReader) bool
	Find([]byte) []byte
	FindString(string) string
	FindIndex([]byte) []int
	FindStringIndex(string) []int
	FindReaderIndex(io.RuneReader) []int
	FindSubmatch([]byte) [][]byte
	FindStringSubmatch(string) []string
	FindSubmatchIndex([]byte) []int
	FindStringSubmatchIndex(string) []int
	FindReaderSubmatchIndex(io.RuneReader) []int
	FindAll([]byte, int) [][]byte
	FindAllString(string, int) []string
	FindAllIndex([]byte, int) [][]int
	FindAllStringIndex(string, int) [][]int
	FindAllSubmatch([]byte, int) [][][]byte
	FindAllStringSubmatch(string, int) [][]string
	FindAllSubmatchIndex([]byte, int) [][]int
	FindAllStringSubmatchIndex(string, int) [][]int
	ReplaceAll(src, repl []byte) []byte
	ReplaceAllString(src, repl string) string
	ReplaceAllLiteral(src, repl []byte) []byte
	ReplaceAllLiteralString(src, repl string) string
	ReplaceAllFunc(src []byte, repl func([]byte) []byte) []byte
	ReplaceAllStringFunc(src string, repl func(string) string) string
	Expand(dst []byte, template []byte, src []byte, match []int) []byte
	ExpandString(dst []byte, template string, src string, match []int) []byte
	Split(s string, n int) []string
	String() string
	NumSubexp() int
	SubexpNames() []string
	SubexpIndex(name string) int
	LiteralPrefix() (string, bool)
	Longest()
	MarshalText() ([]byte, error)
}

// Rec is one observation.
type Rec struct {
	API string
	Val string
}

// Call runs f, converting a panic into an observable value.
func Call(f func() string) (v string) {
	defer func() {
		if r := recover(); r != nil {
			v = "PANIC: " + firstLine(fmt.Sprint(r))
		}
	}()
	return f()
}

func firstLine(s string) string {
	if i := strings.IndexByte(s, '\n'); i >= 0 {
		s = s[:i]
	}
	if len(s) > 200 {
		s = s[:200]
	}
	return s
}

func Ints(a []int) string {
	if a == nil {
		return "nil"
	}
	return fmt.Sprint(a)
}

func Ints2(a [][]int) string {
	if a == nil {
		return "nil"
	}
	return fmt.Sprint(a)
}

func Bytes(b []byte) string {
	if b == nil {
		return "nil"
	}
	return strconv.Quote(string(b))
}

// Content renders byte contents only: nil and empty are the same observable
// value for functions whose contract is "returns a copy of src with…".
func Content(b []byte) string { return strconv.Quote(string(b)) }

func Bytes2(a [][]byte) string {
	if a == nil {
		return "nil"
	}
	var sb strings.Builder
	sb.WriteByte('[')
	for i, b := range a {
		if i > 0 {
			sb.WriteByte(' ')
		}
		sb.WriteString(Bytes(b))
	}
	sb.WriteByte(']')
	return sb.String()
}

func Strs(a []string) string {
	if a == nil {
		return "nil"
	}
	var sb strings.Builder
	sb.WriteByte('[')
	for i, s := range a {
		if i > 0 {
			sb.WriteByte(' ')
		}
		sb.WriteString(strconv.Quote(s))
	}
	sb.WriteByte(']')
	return sb.String()
}

// byteRuneReader feeds bytes as runes the way stdlib's inputReader expects
// (invalid bytes come out as U+FFFD width 1).
type byteRuneReader struct {
	b []byte
	i int
}

func (r *byteRuneReader) ReadRune() (rune, int, error) {
	if r.i >= len(r.b) {
		return 0, 0, io.EOF
	}
	c, w := utf8.DecodeRune(r.b[r.i:])
	r.i += w
	return c, w, nil
}

func Reader(h []byte) io.RuneReader { return &byteRuneReader{b: h} }

// ---------------------------------------------------------------------------
// API groups. Each returns records in a fixed order.

// C01: existence.
func Exists(re RE, h []byte) []Rec {
	s := string(h)
	return []Rec{
		{"Match", Call(func() string { return fmt.Sprint(re.Match(h)) })},
		{"MatchString", Call(func() string { return fmt.Sprint(re.MatchString(s)) })},
		{"MatchReader", Call(func() string { return fmt.Sprint(re.MatchReader(Reader(h))) })},
		{"MatchReader/strings", Call(func() string { return fmt.Sprint(re.MatchReader(strings.NewReader(s))) })},
	}
}

// C02: first-match span. valid reports whether h is valid UTF-8 (reader offsets
// are only defined by the property through stdlib, so they are compared always).
func First(re RE, h []byte) []Rec {
	s := string(h)
	return []Rec{
		{"FindIndex", Call(func() string { return Ints(re.FindIndex(h)) })},
		{"FindStringIndex", Call(func() string { return Ints(re.FindStringIndex(s)) })},
		{"Find", Call(func() string { return Bytes(re.Find(h)) })},
		{"FindString", Call(func() string { return strconv.Quote(re.FindString(s)) })},
		{"FindReaderIndex", Call(func() string { return Ints(re.FindReaderIndex(Reader(h))) })},
	}
}

// C03: captures.
func Submatch(re RE, h []byte) []Rec {
	s := string(h)
	return []Rec{
		{"FindSubmatchIndex", Call(func() string { return Ints(re.FindSubmatchIndex(h)) })},
		{"FindStringSubmatchIndex", Call(func() string { return Ints(re.FindStringSubmatchIndex(s)) })},
		{"FindSubmatch", Call(func() string { return Bytes2(re.FindSubmatch(h)) })},
		{"FindStringSubmatch", Call(func() string { return Strs(re.FindStringSubmatch(s)) })},
		{"FindReaderSubmatchIndex", Call(func() string { return Ints(re.FindReaderSubmatchIndex(Reader(h))) })},
	}
}

// C04 (stdlib-shaped part): FindAll family for limit n.
func All(re RE, h []byte, n int) []Rec {
	s := string(h)
	sn := "(" + strconv.Itoa(n) + ")"
	return []Rec{
		{"FindAllIndex" + sn, Call(func() string { return Ints2(re.FindAllIndex(h, n)) })},
		{"FindAllStringIndex" + sn, Call(func() string { return Ints2(re.FindAllStringIndex(s, n)) })},
		{"FindAll" + sn, Call(func() string { return Bytes2(re.FindAll(h, n)) })},
		{"FindAllString" + sn, Call(func() string { return Strs(re.FindAllString(s, n)) })},
		{"FindAllSubmatchIndex" + sn, Call(func() string { return Ints2(re.FindAllSubmatchIndex(h, n)) })},
		{"FindAllStringSubmatchIndex" + sn, Call(func() string { return Ints2(re.FindAllStringSubmatchIndex(s, n)) })},
		{"FindAllSubmatch" + sn, Call(func() string {
			r := re.FindAllSubmatch(h, n)
			if r == nil {
				return "nil"
			}
			var sb strings.Builder
			for _, m := range r {
				sb.WriteString(Bytes2(m))
			}
			return sb.String()
		})},
		{"FindAllStringSubmatch" + sn, Call(func() string {
			r := re.FindAllStringSubmatch(s, n)
			if r == nil {
				return "nil"
			}
			var sb strings.Builder
			for _, m := range r {
				sb.WriteString(Strs(m))
			}
			return sb.String()
		})},
	}
}

// C08: replace / expand / split.
func Replace(re RE, h []byte, tmpl string, n int) []Rec {
	s := string(h)
	t := []byte(tmpl)
	up := func(b []byte) []byte { return append(bytes.ToUpper(b), '!') }
	ups := func(x string) string { return "<" + x + ">" }
	var recs []Rec
	recs = append(recs,
		Rec{"ReplaceAll", Call(func() string { return Content(re.ReplaceAll(h, t)) })},
		Rec{"ReplaceAllString", Call(func() string { return strconv.Quote(re.ReplaceAllString(s, tmpl)) })},
		Rec{"ReplaceAllLiteral", Call(func() string { return Content(re.ReplaceAllLiteral(h, t)) })},
		Rec{"ReplaceAllLiteralString", Call(func() string { return strconv.Quote(re.ReplaceAllLiteralString(s, tmpl)) })},
		Rec{"ReplaceAllFunc", Call(func() string { return Content(re.ReplaceAllFunc(h, up)) })},
		Rec{"ReplaceAllFunc/empty", Call(func() string { return Content(re.ReplaceAllFunc(h, func([]byte) []byte { return nil })) })},
		Rec{"ReplaceAllStringFunc", Call(func() string { return strconv.Quote(re.ReplaceAllStringFunc(s, ups)) })},
		Rec{"Split(" + strconv.Itoa(n) + ")", Call(func() string { return Strs(re.Split(s, n)) })},
	)
	return recs
}

// Expand with an explicit match vector (taken from the reference so that both
// sides expand the same vector: isolates template handling).
func Expand(re RE, h []byte, tmpl string, match []int) []Rec {
	return []Rec{
		{"Expand", Call(func() string { return Content(re.Expand([]byte("dst:"), []byte(tmpl), h, match)) })},
		{"ExpandString", Call(func() string { return Content(re.ExpandString(nil, tmpl, string(h), match)) })},
	}
}
