// Package cov turns Go's coverage counters (-cover -covermode=atomic) into a
// deterministic work meter: Reset() zeroes every counter, Sum() returns the
// number of executed coverage units (basic blocks of statements) of all
// instrumented packages since the last Reset. Assembly kernels are not
// instrumented; the Go code that calls them is.
package cov

import (
	"bytes"
	"encoding/binary"
	"errors"
	"runtime/coverage"
)

// Reset zeroes all counters. It fails when the binary was not built with -cover -covermode=atomic.
func Reset() error { return coverage.ClearCounters() }

var buf bytes.Buffer

// Sum returns the total of all counters and the number of functions with a non-zero counter.
func Sum() (total uint64, funcs int, err error) {
	buf.Reset()
	if err = coverage.WriteCounters(&buf); err != nil {
		return 0, 0, err
	}
	return parse(buf.Bytes())
}

func parse(b []byte) (total uint64, funcs int, err error) {
	if len(b) < 32+16 || string(b[:3]) != "\x00\x63\x77" {
		return 0, 0, errors.New("not a counter data file")
	}
	flavor := b[24]
	if b[25] != 0 {
		return 0, 0, errors.New("big-endian counter file")
	}
	nseg := binary.LittleEndian.Uint32(b[len(b)-8:])
	off := 32
	for seg := uint32(0); seg < nseg; seg++ {
		if seg > 0 {
			off += 16 // each segment is followed by a footer
		}
		if off+16 > len(b) {
			return 0, 0, errors.New("truncated segment header")
		}
		nf := binary.LittleEndian.Uint64(b[off:])
		strtab := int(binary.LittleEndian.Uint32(b[off+8:]))
		args := int(binary.LittleEndian.Uint32(b[off+12:]))
		off += 16 + strtab + args
		if r := off % 4; r != 0 {
			off += 4 - r
		}
		rd := func() (uint32, error) {
			if flavor == 2 { // ULEB128
				var v uint64
				var shift uint
				for {
					if off >= len(b) {
						return 0, errors.New("truncated counter data")
					}
					c := b[off]
					off++
					v |= uint64(c&0x7f) << shift
					if c&0x80 == 0 {
						break
					}
					shift += 7
				}
				return uint32(v), nil
			}
			if off+4 > len(b) {
				return 0, errors.New("truncated counter data")
			}
			v := binary.LittleEndian.Uint32(b[off:])
			off += 4
			return v, nil
		}
		for f := uint64(0); f < nf; f++ {
			n, err := rd()
			if err != nil {
				return 0, 0, err
			}
			if _, err = rd(); err != nil { // package id
				return 0, 0, err
			}
			if _, err = rd(); err != nil { // function id
				return 0, 0, err
			}
			nz := false
			for k := uint32(0); k < n; k++ {
				c, err := rd()
				if err != nil {
					return 0, 0, err
				}
				total += uint64(c)
				if c != 0 {
					nz = true
				}
			}
			if nz {
				funcs++
			}
		}
	}
	return total, funcs, nil
}
