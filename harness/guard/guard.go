// Package guard is a small red-zone sanitizer: byte slices placed flush against
// inaccessible pages, on read-only data pages. Any load that crosses the end of
// the slice onto the guard page, and any store to the slice, faults; with
// debug.SetPanicOnFault(true) the fault is a recoverable panic, also inside the
// assembly kernels.
package guard

import (
	"fmt"
	"runtime/debug"
	"syscall"
	"unsafe"
)

const page = 4096

// Region is one mapping: guard page, data pages, guard page.
type Region struct {
	mem  []byte
	data []byte // the data pages
	ro   bool   // data pages currently PROT_READ
}

// NewRegion maps room for slices of up to maxLen bytes.
func NewRegion(maxLen int) (*Region, error) {
	pages := (maxLen+page-1)/page + 1
	total := (pages + 2) * page
	mem, err := syscall.Mmap(-1, 0, total, syscall.PROT_READ|syscall.PROT_WRITE, syscall.MAP_ANON|syscall.MAP_PRIVATE)
	if err != nil {
		return nil, err
	}
	if err := syscall.Mprotect(mem[:page], syscall.PROT_NONE); err != nil {
		return nil, err
	}
	if err := syscall.Mprotect(mem[total-page:], syscall.PROT_NONE); err != nil {
		return nil, err
	}
	return &Region{mem: mem, data: mem[page : total-page]}, nil
}

// Place copies src into the region flush against the trailing guard page
// (right==true) or directly behind the leading guard page and returns the
// placed slice (len == cap == len(src)). With readonly the data pages are made
// PROT_READ, so that any store faults; otherwise they stay writable (two fewer
// mprotect calls per placement) and the caller detects stores by comparing the
// bytes afterwards. Loads past the slice onto a guard page fault either way.
func (r *Region) Place(src []byte, right, readonly bool) []byte {
	if len(src) > len(r.data) {
		panic(fmt.Sprintf("guard: %d bytes do not fit", len(src)))
	}
	if r.ro {
		if err := syscall.Mprotect(r.data, syscall.PROT_READ|syscall.PROT_WRITE); err != nil {
			panic(err)
		}
		r.ro = false
	}
	var dst []byte
	var margin []byte
	if right {
		dst = r.data[len(r.data)-len(src) : len(r.data) : len(r.data)]
		margin = r.data[max(0, len(r.data)-len(src)-96) : len(r.data)-len(src)]
	} else {
		dst = r.data[0:len(src):len(src)]
		margin = r.data[len(src):min(len(r.data), len(src)+96)]
	}
	// the bytes next to the slice hold a pattern that would be noticed if it leaked into a result
	for i := range margin {
		margin[i] = 0xA5
	}
	copy(dst, src)
	if readonly {
		if err := syscall.Mprotect(r.data, syscall.PROT_READ); err != nil {
			panic(err)
		}
		r.ro = true
	}
	return dst
}

// String returns a string over a placed slice (no copy: the string bytes are the
// guarded, read-only bytes).
func String(b []byte) string {
	if len(b) == 0 {
		return ""
	}
	return unsafe.String(&b[0], len(b))
}

// Free unmaps the region.
func (r *Region) Free() { syscall.Munmap(r.mem) }

// Enable turns faults into panics for the calling goroutine.
func Enable() { debug.SetPanicOnFault(true) }

// Sink keeps the probe's load alive.
var Sink byte

// Probe reports whether guard faults are caught in this process (self-test of
// the instrument: a deliberate one-byte read past a flush-right slice).
func Probe() (ok bool) {
	r, err := NewRegion(16)
	if err != nil {
		return false
	}
	defer r.Free()
	Enable()
	b := r.Place([]byte("0123456789abcdef"), true, true)
	defer func() {
		if recover() != nil {
			ok = true
		}
	}()
	p := unsafe.Add(unsafe.Pointer(&b[0]), len(b))
	Sink = *(*byte)(p)
	return false
}
