package main

import (
	"os"
	"runtime"
	"runtime/pprof"

	"github.com/coregx/coregex"
)

func main() {
	runtime.MemProfileRate = 1
	re := coregex.MustCompile(os.Args[1])
	h := []byte(os.Args[2])
	eng := re.VerifEngine()
	re.Count(h, -1)
	eng.FindIndices(h)
	runtime.GC()
	for i := 0; i < 1000; i++ {
		switch os.Args[3] {
		case "count":
			re.Count(h, -1)
		case "find":
			eng.FindIndices(h)
		}
	}
	runtime.GC()
	f, _ := os.Create("/verif/work/mem.prof")
	pprof.Lookup("allocs").WriteTo(f, 0)
	f.Close()
}
