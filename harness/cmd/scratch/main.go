package main

import (
	"bytes"
	"fmt"
	"os"

	"github.com/coregx/coregex"
	"github.com/coregx/coregex/meta"
	"github.com/coregx/coregex/nfa"
	"verif/cov"
)

func main() {
	pats := os.Args[1:]
	for _, p := range pats {
		re, err := coregex.Compile(p)
		if err != nil {
			fmt.Println(p, err)
			continue
		}
		n0, _ := nfa.NewDefaultCompiler().Compile(p)
		S := n0.States()
		eng, _ := meta.Compile(p)
		fmt.Printf("%-40q S=%d strat=%s\n", p, S, eng.Strategy())
		for _, fam := range []string{"a", "a1"} {
			fmt.Printf("   %-3s", fam)
			for n := 1024; n <= 65536; n *= 2 {
				h := bytes.Repeat([]byte(fam), n/len(fam))
				for _, api := range []string{"M", "F", "S"} {
					cov.Reset()
					switch api {
					case "M":
						re.Match(h)
					case "F":
						re.FindIndex(h)
					case "S":
						re.FindSubmatchIndex(h)
					}
					w, _, err := cov.Sum()
					if err != nil {
						fmt.Println(err)
						return
					}
					fmt.Printf(" %s%.1f", api, float64(w)/float64(S*(n+1)))
					if w > 3e8 {
						n = 1 << 30
						break
					}
				}
				fmt.Print(" |")
			}
			fmt.Println()
		}
	}
}
