package main

import (
	"fmt"
	"os"

	"github.com/coregx/coregex/meta"
	"github.com/coregx/coregex/nfa"
)

func main() {
	for _, p := range os.Args[1:] {
		e, err := meta.Compile(p)
		if err != nil {
			fmt.Println(p, err)
			continue
		}
		n, _ := nfa.NewDefaultCompiler().Compile(p)
		fmt.Printf("%-34q %-24s S=%d limit=%d\n", p, e.Strategy(), n.States(), (32<<20)/n.States())
	}
}
