package main

import (
	"bytes"
	"fmt"
	"os"
	"runtime/debug"
	"strconv"

	"github.com/coregx/coregex"
)

func main() {
	mb, _ := strconv.Atoi(os.Args[3])
	debug.SetMaxStack(mb << 20)
	n, _ := strconv.Atoi(os.Args[2])
	re := coregex.MustCompile(os.Args[1])
	h := bytes.Repeat([]byte("a"), n)
	done := make(chan bool)
	go func() { fmt.Println(re.Match(h)); done <- true }()
	<-done
}
