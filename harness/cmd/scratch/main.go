package main

import (
	"fmt"

	"github.com/coregx/coregex/dfa/lazy"
	"github.com/coregx/coregex/nfa"
	"verif/gen"
)

type call struct {
	h  []byte
	at int
	op byte
}

func main() {
	c := gen.D(7201)
	p := c.Pattern
	n, _ := nfa.NewDefaultCompiler().Compile(p)
	cfg := lazy.DefaultConfig()
	cfg.UsePrefilter = false
	cfg.BreakAtMatch = true
	d, _ := lazy.CompileWithConfig(n, cfg)
	target := c.Haystacks[4]
	var seq []call
	for _, h := range c.Haystacks[:5] {
		var offs []int
		for a := 0; a <= len(h) && a <= 12; a++ {
			offs = append(offs, a)
		}
		if len(h) > 12 {
			offs = append(offs, len(h)-1, len(h))
		}
		for _, at := range offs {
			seq = append(seq, call{h, at, 'S'}, call{h, at, 'A'})
		}
	}
	bad := func(s []call) bool {
		cache := d.NewCache()
		for _, cl := range s {
			if cl.op == 'S' {
				d.SearchAt(cache, cl.h, cl.at)
			} else {
				d.SearchAtAnchored(cache, cl.h, cl.at)
			}
		}
		return d.SearchAt(cache, target, 7) != 15
	}
	fmt.Println("full sequence bad:", bad(seq), len(seq))
	// greedy delta debugging
	for changed := true; changed; {
		changed = false
		for i := 0; i < len(seq); i++ {
			t := append(append([]call{}, seq[:i]...), seq[i+1:]...)
			if bad(t) {
				seq = t
				changed = true
				i--
			}
		}
	}
	for _, cl := range seq {
		fmt.Printf("%c %q at=%d\n", cl.op, cl.h, cl.at)
	}
}
