package main

import (
	"bytes"
	"fmt"
	"os"
	"runtime/pprof"
	"strconv"

	"github.com/coregx/coregex"
	"github.com/coregx/coregex/meta"
)

func main() {
	n, _ := strconv.Atoi(os.Args[2])
	re := coregex.MustCompile(os.Args[1])
	e, _ := meta.Compile(os.Args[1])
	fmt.Println(e.Strategy())
	h := bytes.Repeat([]byte(os.Args[3]), n/len(os.Args[3]))
	f, _ := os.Create("/verif/work/cpu.prof")
	pprof.StartCPUProfile(f)
	for i := 0; i < 3; i++ {
		re.FindIndex(h)
	}
	pprof.StopCPUProfile()
}
