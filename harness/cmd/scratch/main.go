package main

import (
	"fmt"
	"os"
	"regexp"

	"github.com/coregx/coregex"
)

func main() {
	p := os.Args[1]
	a, b := coregex.MustCompile(p), regexp.MustCompile(p)
	for _, h := range os.Args[2:] {
		fmt.Println("coregex", a.MatchString(h), a.FindStringSubmatchIndex(h), a.FindAllStringIndex(h, -1))
		fmt.Println("stdlib ", b.MatchString(h), b.FindStringSubmatchIndex(h), b.FindAllStringIndex(h, -1))
	}
}
