package main

import (
	"fmt"
	"os"
	"regexp"

	"github.com/coregx/coregex"
)

func main() {
	p, h := os.Args[1], os.Args[2]
	fmt.Println(coregex.MustCompile(p).FindStringIndex(h), regexp.MustCompile(p).FindStringIndex(h))
}
