package main

import (
	"fmt"
	"os"
	"regexp"

	"github.com/coregx/coregex"
)

func main() {
	p, h := os.Args[1], os.Args[2]
	a, b := coregex.MustCompile(p), regexp.MustCompile(p)
	fmt.Println("coregex", a.MatchString(h), a.FindStringIndex(h), a.FindAllStringIndex(h, -1))
	fmt.Println("stdlib ", b.MatchString(h), b.FindStringIndex(h), b.FindAllStringIndex(h, -1))
}
