// vcheck: supervisor and worker of the runtime-monitoring checks (see /verif/DESIGN.md).
package main

import (
	"bufio"
	"compress/gzip"
	"encoding/json"
	"fmt"
	"math/rand/v2"
	"os"
	"os/exec"
	"path/filepath"
	"sort"
	"strconv"
	"strings"
	"sync"
	"syscall"
	"time"

	"verif/gen"
)

// Variant is one process environment under which the whole index list is executed.
type Variant struct {
	Name string
	Env  []string
}

// Prop describes one registered property check.
type Prop struct {
	Variants   []Variant // default: one unnamed variant
	ID         string
	N          uint64 // universe size: thorough runs [0,N)
	Quick      int    // number of seed-chosen indices in the quick tier
	QuickFixed uint64 // indices below it are part of every quick run (fixed grid); the seed-chosen subset comes on top
	Witness bool // the runner is built on gen.D: the fixed witness corpus (gen.Witnesses) is part of every tier
	Build      string // worker build variant: "", "race", "cover"
	Env        []string
	Workers    int
	Rule       string
	Assume     []string
	Init       func(w *W)
	Run        func(w *W, i uint64)
	Finish     func(w *W)
	Pre        func(p *Prop)           // supervisor side, before workers start
	Post       func(p *Prop)           // supervisor side, after the verdict
	Triage     func(f *Failure) string // attributes a baseline failure to an open finding ("" = unexplained)
	// Exhaustive reports whether the thorough tier enumerates its stated finite domain completely.
	Exhaustive bool
	// NoList: failures of this property are never suppressed by exact lists (only by Known()).
	Known func(f *Failure) string // run-time recognition by call site (C05/C06/C20-style findings)
	// Timeout per worker without journal progress.
	StallSec int
}

var props = map[string]*Prop{}

func register(p *Prop) { props[p.ID] = p }

var verifDir = "/verif"

func main() {
	if d := os.Getenv("VERIF_DIR"); d != "" {
		verifDir = d
	}
	if len(os.Args) < 2 {
		usage()
	}
	switch os.Args[1] {
	case "worker":
		workerMain(os.Args[2:])
	case "check":
		if len(os.Args) < 4 {
			usage()
		}
		os.Exit(check(os.Args[2], os.Args[3], modeCheck, 0, 0))
	case "baseline":
		os.Exit(check(os.Args[2], "thorough", modeBaseline, 0, 0))
	case "explore":
		from, _ := strconv.ParseUint(os.Args[3], 10, 64)
		to, _ := strconv.ParseUint(os.Args[4], 10, 64)
		os.Exit(check(os.Args[2], "thorough", modeExplore, from, to))
	case "replay":
		os.Exit(replay(os.Args[2]))
	case "pcase":
		i, _ := strconv.ParseUint(os.Args[2], 10, 64)
		probeCase(i)
	case "probe":
		probe(os.Args[2:])
	case "needs":
		if p := props[os.Args[2]]; p != nil {
			fmt.Println(p.Build)
		}
	case "case":
		// print a universe case: vcheck case D 123
		i, _ := strconv.ParseUint(os.Args[3], 10, 64)
		if os.Args[2] == "P" {
			printPCase(i)
		} else {
			printCase(os.Args[2], i)
		}
	default:
		usage()
	}
}

func usage() {
	fmt.Fprintln(os.Stderr, "usage: vcheck check <Cnn> quick|thorough | baseline <Cnn> | explore <Cnn> <from> <to> | replay <file> | case <family> <i>")
	os.Exit(2)
}

const (
	modeCheck = iota
	modeBaseline
	modeExplore
)

func seedFromEnv() uint64 {
	s := os.Getenv("VERIF_SEED")
	if s == "" {
		return 1
	}
	v, err := strconv.ParseInt(s, 10, 64)
	if err != nil {
		return 1
	}
	return uint64(v)
}

// ---------------------------------------------------------------------------
// known findings

type Finding struct {
	State string // open | fixed
	Prop  string
	ID    string
	Site  string
	Text  string
	Line  string
}

func loadFindings() []Finding {
	f, err := os.Open(filepath.Join(verifDir, "known-findings.txt"))
	if err != nil {
		return nil
	}
	defer f.Close()
	var out []Finding
	sc := bufio.NewScanner(f)
	sc.Buffer(make([]byte, 1<<20), 1<<20)
	for sc.Scan() {
		line := strings.TrimSpace(sc.Text())
		if line == "" || strings.HasPrefix(line, "#") {
			continue
		}
		var fd Finding
		fd.Line = line
		switch {
		case strings.HasPrefix(line, "open:"):
			fd.State = "open"
		case strings.HasPrefix(line, "fixed:"):
			fd.State = "fixed"
		default:
			continue
		}
		head, text, _ := strings.Cut(line, "::")
		fd.Text = strings.TrimSpace(text)
		for _, tok := range strings.Fields(head) {
			k, v, ok := strings.Cut(tok, "=")
			if !ok {
				continue
			}
			switch k {
			case "property":
				fd.Prop = v
			case "id":
				fd.ID = v
			case "site":
				fd.Site = v
			}
		}
		out = append(out, fd)
	}
	return out
}

// caseList maps failure key -> the listed (digest -> KF id) pairs. One key can carry several digests: a runner may
// report the same (case, sub, API) more than once (a relation evaluated at several offsets), each with its own result.
type listed struct {
	kf   string            // KF id of the first listed observation (used for choosing witnesses)
	digs map[string]string // digest -> KF id
}

func loadCaseList(prop string) (map[string]listed, string, error) {
	path := filepath.Join(verifDir, "findings", prop+".cases.gz")
	f, err := os.Open(path)
	if err != nil {
		if os.IsNotExist(err) {
			return map[string]listed{}, gen.Version, nil
		}
		return nil, "", err
	}
	defer f.Close()
	zr, err := gzip.NewReader(f)
	if err != nil {
		return nil, "", err
	}
	m := map[string]listed{}
	ver := ""
	sc := bufio.NewScanner(zr)
	sc.Buffer(make([]byte, 1<<20), 1<<20)
	for sc.Scan() {
		line := sc.Text()
		if strings.HasPrefix(line, "#gen ") {
			ver = strings.TrimPrefix(line, "#gen ")
			continue
		}
		parts := strings.Split(line, "\t")
		if len(parts) != 5 {
			continue
		}
		k := parts[0] + "\t" + parts[1] + "\t" + parts[2]
		l, ok := m[k]
		if !ok {
			l = listed{kf: parts[4], digs: map[string]string{}}
		}
		l.digs[parts[3]] = parts[4]
		m[k] = l
	}
	return m, ver, sc.Err()
}

func writeCaseList(prop string, fs []Failure) error {
	path := filepath.Join(verifDir, "findings", prop+".cases.gz")
	os.MkdirAll(filepath.Dir(path), 0o755)
	f, err := os.Create(path)
	if err != nil {
		return err
	}
	zw, _ := gzip.NewWriterLevel(f, gzip.BestCompression)
	fmt.Fprintf(zw, "#gen %s\n", gen.Version)
	sort.Slice(fs, func(i, j int) bool {
		if fs[i].Idx != fs[j].Idx {
			return fs[i].Idx < fs[j].Idx
		}
		return fs[i].Key() < fs[j].Key()
	})
	for _, x := range fs {
		fmt.Fprintf(zw, "%s\t%s\t%s\n", x.Key(), digest(x.Got), x.KF)
	}
	if err := zw.Close(); err != nil {
		return err
	}
	return f.Close()
}

// ---------------------------------------------------------------------------

func workerBin(build string) string {
	name := "vcheck"
	if build != "" {
		name += "-" + build
	}
	if d := os.Getenv("VERIF_BIN"); d != "" {
		return filepath.Join(d, name)
	}
	return filepath.Join(verifDir, "bin", name)
}

type segResult struct {
	failures []Failure
	sum      Summary
	digests  map[uint64]string
	variant  string
}

func check(propID, tier string, mode int, from, to uint64) int {
	t0 := time.Now()
	p := props[propID]
	if p == nil {
		fmt.Println("INCONCLUSIVE: unknown property", propID)
		return 2
	}
	if p.Pre != nil {
		p.Pre(p)
	}
	if p.Post != nil {
		defer p.Post(p)
	}
	seed := seedFromEnv()
	list, ver, err := loadCaseList(propID)
	if err != nil {
		fmt.Println("INCONCLUSIVE: cannot read case list:", err)
		return 2
	}
	if ver != gen.Version && mode == modeCheck {
		fmt.Printf("INCONCLUSIVE: case lists are stale (list %s, generator %s)\n", ver, gen.Version)
		return 2
	}
	findings := loadFindings()

	// choose indices
	var idx []uint64
	switch {
	case mode == modeExplore:
		for i := from; i < to; i++ {
			idx = append(idx, i)
		}
	case tier == "thorough" || mode == modeBaseline:
		for i := uint64(0); i < p.N; i++ {
			idx = append(idx, i)
		}
		r := rand.New(rand.NewPCG(seed, 77))
		r.Shuffle(len(idx), func(a, b int) { idx[a], idx[b] = idx[b], idx[a] })
	default:
		seen := map[uint64]bool{}
		// fixed corpus: first listed cases of every open finding (witnesses)
		perKF := map[string]int{}
		keys := make([]string, 0, len(list))
		for k := range list {
			keys = append(keys, k)
		}
		sort.Strings(keys)
		for _, k := range keys {
			kf := list[k].kf
			if perKF[kf] < 3 {
				i, _ := strconv.ParseUint(strings.SplitN(k, "\t", 2)[0], 10, 64)
				if !seen[i] && (i < p.N || (p.Witness && i >= gen.WitnessBase)) {
					seen[i] = true
					idx = append(idx, i)
					perKF[kf]++
				}
			}
		}
		for i := uint64(0); i < p.QuickFixed && i < p.N; i++ {
			if !seen[i] {
				seen[i] = true
				idx = append(idx, i)
			}
		}
		r := rand.New(rand.NewPCG(seed, 1234567))
		q := p.Quick + int(p.QuickFixed)
		if uint64(q) > p.N {
			q = int(p.N)
		}
		for len(idx) < q+len(perKF)*3 && uint64(len(seen)) < p.N {
			i := r.Uint64N(p.N)
			if !seen[i] {
				seen[i] = true
				idx = append(idx, i)
			}
		}
	}

	if p.Witness && mode != modeExplore {
		have := map[uint64]bool{}
		for _, i := range idx {
			have[i] = true
		}
		for k := range gen.Witnesses {
			if i := gen.WitnessBase + uint64(k); !have[i] {
				idx = append(idx, i)
			}
		}
	}

	// one scratch directory per supervisor process: two runs of the same property (a check and an exploration, or
	// two tiers started together) must not delete each other's worker files
	workDir := filepath.Join(verifDir, "work", propID+"-"+tier+"-"+strconv.FormatUint(seed, 10)+"-"+strconv.Itoa(os.Getpid()))
	os.RemoveAll(workDir)
	os.MkdirAll(workDir, 0o755)
	defer os.RemoveAll(workDir)

	nw := p.Workers
	if nw == 0 {
		nw = 16
	}
	if nw > len(idx) {
		nw = max(1, len(idx))
	}
	// distribute in small chunks so that a crash loses little
	results := make([]segResult, nw)
	var wg sync.WaitGroup
	bin := workerBin(p.Build)
	if _, err := os.Stat(bin); err != nil {
		fmt.Println("INCONCLUSIVE: worker binary missing:", bin)
		return 2
	}
	variants := p.Variants
	if len(variants) == 0 {
		variants = []Variant{{}}
	}
	results = make([]segResult, nw*len(variants))
	sem := make(chan struct{}, nw)
	for vi, v := range variants {
		for k := 0; k < nw; k++ {
			var mine []uint64
			for j := k; j < len(idx); j += nw {
				mine = append(mine, idx[j])
			}
			wg.Add(1)
			go func(slot, k int, v Variant, mine []uint64) {
				defer wg.Done()
				sem <- struct{}{}
				defer func() { <-sem }()
				results[slot] = runWorkerSegments(p, bin, tier, seed, workDir, slot, mine, v)
			}(vi*nw+k, k, v, mine)
		}
	}
	wg.Wait()

	// merge
	var fails []Failure
	total := Summary{Hist: map[string]int{}}
	nontriv := map[uint64]struct{}{}
	for _, r := range results {
		fails = append(fails, r.failures...)
		total.Cases += r.sum.Cases
		total.Evaluations += r.sum.Evaluations
		total.Inconcl += r.sum.Inconcl
		for k, v := range r.sum.Hist {
			total.Hist[k] += v
		}
		for _, h := range r.sum.Nontrivial {
			nontriv[h] = struct{}{}
		}
		for _, s := range r.sum.Samples {
			if len(total.Samples) < 5 {
				total.Samples = append(total.Samples, s)
			}
		}
	}
	// cross-variant digests: every index must have the same digest under every variant
	if len(variants) > 1 {
		byVar := map[string]map[uint64]string{}
		for _, r := range results {
			if byVar[r.variant] == nil {
				byVar[r.variant] = map[uint64]string{}
			}
			for k, d := range r.digests {
				byVar[r.variant][k] = d
			}
		}
		base := byVar[variants[0].Name]
		compared := 0
		for _, v := range variants[1:] {
			for k, d := range byVar[v.Name] {
				if bd, ok := base[k]; ok {
					compared++
					if bd != d {
						fails = append(fails, Failure{Prop: propID, Idx: k, Sub: v.Name, API: "cross-variant-digest", Got: d, Want: bd, Note: "results differ between " + variants[0].Name + " and " + v.Name})
					}
				}
			}
		}
		total.Hist["event:cross-variant-digests-compared"] += compared
	}
	sort.Slice(fails, func(i, j int) bool {
		if fails[i].Idx != fails[j].Idx {
			return fails[i].Idx < fails[j].Idx
		}
		return fails[i].Key() < fails[j].Key()
	})

	openKF := map[string]Finding{}
	for _, f := range findings {
		if f.State == "open" && f.Prop == propID {
			openKF[f.ID] = f
		}
	}

	if mode == modeBaseline || mode == modeExplore {
		return baselineReport(p, fails, openKF, mode == modeBaseline, total)
	}

	// classify
	kfSeen := map[string]int{}
	var viol []Failure
	for i := range fails {
		f := &fails[i]
		if p.Known != nil {
			if kf := p.Known(f); kf != "" {
				if _, ok := openKF[kf]; ok {
					kfSeen[kf]++
					continue
				}
			}
		}
		if l, ok := list[f.Key()]; ok {
			if kf, ok := l.digs[digest(f.Got)]; ok {
				if _, open := openKF[kf]; open {
					kfSeen[kf]++
					continue
				}
			}
		}
		viol = append(viol, *f)
	}
	ids := make([]string, 0, len(kfSeen))
	for id := range kfSeen {
		ids = append(ids, id)
	}
	sort.Strings(ids)
	for _, id := range ids {
		fmt.Printf("KNOWN-FINDING: property=%s %s site=%s %s (reproduced on %d listed observations in this run)\n", propID, id, openKF[id].Site, openKF[id].Text, kfSeen[id])
	}
	// replay files
	replayDir := filepath.Join(verifDir, "replay", propID)
	nv := 0
	seenCase := map[string]bool{}
	for _, f := range viol {
		ck := fmt.Sprintf("%d", f.Idx)
		nv++
		if seenCase[ck] && nv > 50 {
			continue
		}
		seenCase[ck] = true
		if len(seenCase) > 40 {
			continue
		}
		os.MkdirAll(replayDir, 0o755)
		path := filepath.Join(replayDir, fmt.Sprintf("%d-%s.json", f.Idx, digest(f.Key()+f.Got)))
		b, _ := json.MarshalIndent(map[string]any{"failure": f, "tier": tier, "seed": seed, "gen": gen.Version}, "", " ")
		os.WriteFile(path, b, 0o644)
		fmt.Printf("VIOLATION property=%s replay=%s\n", propID, path)
		fmt.Printf("  api=%s pattern=%q haystack=%s got=%s want=%s strategy=%s %s\n", f.API, f.Pattern, f.Haystack, clip(f.Got, 120), clip(f.Want, 120), f.Strategy, f.Note)
	}
	if len(viol) > 0 {
		fmt.Printf("%d violating observations in %d cases\n", len(viol), len(seenCase))
	}
	writeEvidence(p, tier, seed, total, len(nontriv), len(viol), kfSeen, time.Since(t0).Seconds(), len(idx))
	if total.Cases == 0 {
		fmt.Println("INCONCLUSIVE: no case executed")
		return 2
	}
	fmt.Printf("%s %s seed=%d: cases=%d evaluations=%d distinct_nontrivial=%d known=%d violations=%d inconclusive=%d wall=%.1fs\n",
		propID, tier, seed, total.Cases, total.Evaluations, len(nontriv), sumMap(kfSeen), len(viol), total.Inconcl, time.Since(t0).Seconds())
	if len(viol) > 0 {
		return 1
	}
	return 0
}

func sumMap(m map[string]int) int {
	n := 0
	for _, v := range m {
		n += v
	}
	return n
}

func clip(s string, n int) string {
	if len(s) > n {
		return s[:n] + "…"
	}
	return s
}

// runWorkerSegments runs one worker over its indices, restarting after a crash or stall.
func runWorkerSegments(p *Prop, bin, tier string, seed uint64, dir string, k int, mine []uint64, v Variant) segResult {
	var res segResult
	res.sum.Hist = map[string]int{}
	seg := 0
	for len(mine) > 0 {
		seg++
		base := filepath.Join(dir, fmt.Sprintf("w%d-%d", k, seg))
		var sb strings.Builder
		for _, i := range mine {
			sb.WriteString(strconv.FormatUint(i, 10))
			sb.WriteByte('\n')
		}
		os.WriteFile(base+".idx", []byte(sb.String()), 0o644)
		errf, _ := os.Create(base + ".err")
		cmd := exec.Command(bin, "worker", p.ID, tier, strconv.FormatUint(seed, 10), base+".idx", base+".out", base+".journal")
		cmd.Stdout = errf
		cmd.Stderr = errf
		cmd.Env = append(os.Environ(), p.Env...)
		cmd.Env = append(cmd.Env, v.Env...)
		cmd.Env = append(cmd.Env, "VERIF_WORKDIR="+dir, fmt.Sprintf("VERIF_WORKER=%d", k), "VERIF_VARIANT="+v.Name)
		if err := cmd.Start(); err != nil {
			res.sum.Inconcl++
			return res
		}
		done := make(chan error, 1)
		go func() { done <- cmd.Wait() }()
		stall := p.StallSec
		if stall == 0 {
			stall = 600
		}
		if x, err := strconv.Atoi(os.Getenv("VERIF_STALL")); err == nil && x > 0 {
			stall = x // diagnosis only
		}
		var werr error
		stalled := false
		lastSize := int64(-1)
		lastChange := time.Now()
		cpuAtChange := procCPUSeconds(cmd.Process.Pid)
	loop:
		for {
			select {
			case werr = <-done:
				break loop
			case <-time.After(2 * time.Second):
				if st, err := os.Stat(base + ".journal"); err == nil {
					// The watchdog counts the worker's own CPU seconds since the last journal line, not wall
					// time: on a loaded machine a slow case must not look like a hang. A worker that neither
					// progresses nor burns CPU (deadlock, blocked) is caught by wall time after 3x the limit.
					cpu := procCPUSeconds(cmd.Process.Pid)
					if st.Size() != lastSize {
						lastSize = st.Size()
						lastChange = time.Now()
						cpuAtChange = cpu
					} else if cpu-cpuAtChange > float64(stall) || time.Since(lastChange) > 3*time.Duration(stall)*time.Second {
						stalled = true
						cmd.Process.Signal(syscall.SIGQUIT) // goroutine dump into .err: names the function that does not return
						select {
						case werr = <-done:
						case <-time.After(10 * time.Second):
							cmd.Process.Kill()
							werr = <-done
						}
						break loop
					}
				}
			}
		}
		errf.Close()
		fs, sum, digs := readWorkerOut(base + ".out")
		if res.digests == nil {
			res.digests = map[uint64]string{}
		}
		for k, d := range digs {
			res.digests[k] = d
		}
		res.variant = v.Name
		res.failures = append(res.failures, fs...)
		mergeSum(&res.sum, sum)
		last, finished, abandoned := readJournal(base + ".journal")
		if finished && werr == nil {
			break
		}
		// abnormal end: attribute to the last BEGIN
		errText := tailFile(base+".err", 3000)
		pos := -1
		for j, i := range mine {
			if i == last {
				pos = j
			}
		}
		if pos < 0 {
			// died before the first case
			res.failures = append(res.failures, Failure{Prop: p.ID, Idx: 0, Sub: "-", API: "WORKER", Got: "worker died before first case: " + clip(errText, 600), Want: "normal execution"})
			break
		}
		if abandoned && !stalled {
			// the worker recorded its verdict for this case and left on purpose
		} else if stalled {
			res.sum.Inconcl++
			res.sum.Hist["inconclusive:stall"]++
			res.failures = append(res.failures, Failure{Prop: p.ID, Idx: last, Sub: "-", API: "STALL", Got: fmt.Sprintf("no progress for %ds", stall), Want: "termination", Note: "watchdog; " + stallStack(base+".err")})
		} else {
			res.failures = append(res.failures, Failure{Prop: p.ID, Idx: last, Sub: "-", API: "CRASH", Got: crashSignature(errText), Want: "normal return", Note: clip(errText, 1500)})
		}
		mine = mine[pos+1:]
	}
	return res
}

// procCPUSeconds returns user+system CPU seconds consumed so far by the process (0 if unknown).
func procCPUSeconds(pid int) float64 {
	b, err := os.ReadFile("/proc/" + strconv.Itoa(pid) + "/stat")
	if err != nil {
		return 0
	}
	t := string(b)
	k := strings.LastIndex(t, ")") // the command name may contain spaces
	if k < 0 {
		return 0
	}
	f := strings.Fields(t[k+1:])
	if len(f) < 13 {
		return 0
	}
	ut, _ := strconv.ParseFloat(f[11], 64) // utime  (field 14)
	st, _ := strconv.ParseFloat(f[12], 64) // stime  (field 15)
	return (ut + st) / 100
}

// stallStack returns the coregex frames of the goroutine that was running when the watchdog sent SIGQUIT.
func stallStack(path string) string {
	b, err := os.ReadFile(path)
	if err != nil {
		return ""
	}
	t := string(b)
	if k := strings.Index(t, "SIGQUIT"); k >= 0 {
		t = t[k:]
	}
	var frames []string
	for _, line := range strings.Split(t, "\n") {
		if strings.HasPrefix(line, "github.com/coregx/coregex") || strings.HasPrefix(line, "main.") {
			if p := strings.LastIndex(line, "("); p > 0 {
				line = line[:p]
			}
			frames = append(frames, strings.TrimPrefix(line, "github.com/coregx/coregex/"))
			if len(frames) >= 14 {
				break
			}
		}
	}
	return strings.Join(frames, " < ")
}

// crashSignature reduces a fatal error dump to its first line (stable across runs).
func crashSignature(s string) string {
	for _, line := range strings.Split(s, "\n") {
		line = strings.TrimSpace(line)
		if strings.HasPrefix(line, "fatal error:") || strings.HasPrefix(line, "panic:") || strings.HasPrefix(line, "runtime:") || strings.HasPrefix(line, "SIG") {
			return clip(line, 200)
		}
	}
	return "abnormal exit"
}

func tailFile(path string, n int) string {
	b, err := os.ReadFile(path)
	if err != nil {
		return ""
	}
	if len(b) > n {
		// keep the head: Go prints the fatal error first
		b = b[:n]
	}
	return string(b)
}

func readJournal(path string) (last uint64, finished, abandoned bool) {
	b, _ := os.ReadFile(path)
	lines := strings.Split(strings.TrimSpace(string(b)), "\n")
	for _, l := range lines {
		if l == "DONE" {
			finished = true
		}
		if strings.HasPrefix(l, "B ") {
			last, _ = strconv.ParseUint(l[2:], 10, 64)
			abandoned = false
		}
		if strings.HasPrefix(l, "X ") {
			abandoned = true
		}
	}
	return
}

func readWorkerOut(path string) ([]Failure, Summary, map[uint64]string) {
	var fs []Failure
	var sum Summary
	digs := map[uint64]string{}
	f, err := os.Open(path)
	if err != nil {
		return nil, sum, digs
	}
	defer f.Close()
	sc := bufio.NewScanner(f)
	sc.Buffer(make([]byte, 1<<24), 1<<26)
	for sc.Scan() {
		line := sc.Text()
		switch {
		case strings.HasPrefix(line, "F "):
			var x Failure
			if json.Unmarshal([]byte(line[2:]), &x) == nil {
				fs = append(fs, x)
			}
		case strings.HasPrefix(line, "S "):
			var s Summary
			if json.Unmarshal([]byte(line[2:]), &s) == nil {
				sum = s
			}
		case strings.HasPrefix(line, "D "):
			parts := strings.SplitN(line[2:], " ", 2)
			if len(parts) == 2 {
				k, _ := strconv.ParseUint(parts[0], 10, 64)
				digs[k] = parts[1]
			}
		}
	}
	return fs, sum, digs
}

func mergeSum(dst *Summary, s Summary) {
	dst.Cases += s.Cases
	dst.Evaluations += s.Evaluations
	dst.Inconcl += s.Inconcl
	for k, v := range s.Hist {
		dst.Hist[k] += v
	}
	dst.Nontrivial = append(dst.Nontrivial, s.Nontrivial...)
	dst.Samples = append(dst.Samples, s.Samples...)
}

// ---------------------------------------------------------------------------

func baselineReport(p *Prop, fails []Failure, openKF map[string]Finding, write bool, total Summary) int {
	unexpl := 0
	var unexplained []Failure
	defer func() { printClusters(unexplained) }()
	perKF := map[string]int{}
	var listedFails []Failure
	for i := range fails {
		f := &fails[i]
		kf := ""
		if p.Triage != nil {
			kf = p.Triage(f)
		}
		if _, ok := openKF[kf]; !ok && kf != "" {
			fmt.Printf("triage names %s which is not an open finding of %s\n", kf, p.ID)
			kf = ""
		}
		if kf == "" {
			unexpl++
			unexplained = append(unexplained, *f)
			continue
		}
		f.KF = kf
		perKF[kf]++
		listedFails = append(listedFails, *f)
	}
	fmt.Printf("%s baseline: cases=%d evaluations=%d failures=%d unexplained=%d\n", p.ID, total.Cases, total.Evaluations, len(fails), unexpl)
	for k, v := range perKF {
		fmt.Printf("  %s: %d observations\n", k, v)
	}
	if unexpl > 0 {
		fmt.Println("baseline refused: unexplained failures must be triaged first")
		return 1
	}
	if write {
		if err := writeCaseList(p.ID, listedFails); err != nil {
			fmt.Println("write:", err)
			return 2
		}
		fmt.Printf("wrote findings/%s.cases.gz (%d observations)\n", p.ID, len(listedFails))
	}
	return 0
}

func writeEvidence(p *Prop, tier string, seed uint64, total Summary, nontriv, nviol int, kfSeen map[string]int, wall float64, selected int) {
	cov := map[string]any{
		"evaluations":         total.Evaluations,
		"distinct_nontrivial": nontriv,
		"rule":                p.Rule,
		"samples":             total.Samples,
		"cases_selected":      selected,
		"cases_executed":      total.Cases,
		"universe_size":       p.N,
		"generator_version":   gen.Version,
		"observed":            total.Hist,
		"known_findings_seen": kfSeen,
		"inconclusive":        total.Inconcl,
	}
	if p.Exhaustive && tier == "thorough" {
		cov["exhaustive"] = true
	}
	if len(total.Samples) == 0 {
		cov["samples"] = []any{"(no sample recorded)"}
	}
	ev := map[string]any{
		"property_id": p.ID,
		"tier":        tier,
		"seed":        int64(seed),
		"level":       "exploration",
		"coverage":    cov,
		"assumptions": p.Assume,
		"wall_s":      wall,
		"violations":  nviol,
	}
	b, _ := json.MarshalIndent(ev, "", " ")
	os.MkdirAll(filepath.Join(verifDir, "evidence"), 0o755)
	os.WriteFile(filepath.Join(verifDir, "evidence", p.ID+".json"), b, 0o644)
}

func replay(path string) int {
	b, err := os.ReadFile(path)
	if err != nil {
		fmt.Println(err)
		return 2
	}
	var r struct {
		Failure Failure `json:"failure"`
		Tier    string  `json:"tier"`
		Seed    uint64  `json:"seed"`
	}
	if err := json.Unmarshal(b, &r); err != nil {
		fmt.Println(err)
		return 2
	}
	p := props[r.Failure.Prop]
	if p == nil {
		fmt.Println("unknown property in replay file")
		return 2
	}
	dir, _ := os.MkdirTemp(filepath.Join(verifDir, "work"), "replay")
	defer os.RemoveAll(dir)
	res := runWorkerSegments(p, workerBin(p.Build), r.Tier, r.Seed, dir, 0, []uint64{r.Failure.Idx}, variantOf(p, r.Failure.Sub))
	hit := false
	for _, f := range res.failures {
		bb, _ := json.MarshalIndent(f, "", " ")
		fmt.Println(string(bb))
		if f.Key() == r.Failure.Key() {
			hit = true
		}
	}
	if hit {
		fmt.Printf("VIOLATION property=%s replay=%s\n", r.Failure.Prop, path)
		return 1
	}
	fmt.Println("recorded observation did not reproduce")
	return 0
}

func printCase(fam string, i uint64) {
	c := gen.D(i)
	fmt.Printf("index=%d family=%s region=%s\npattern=%q\n", c.Index, c.Family, c.Region, c.Pattern)
	for k, h := range c.Haystacks {
		fmt.Printf("h%d=%q\n", k, h)
	}
	fmt.Printf("templates=%q ns=%v\n", c.Templates, c.Ns)
}

// printClusters groups failures by (api group, strategy, region, agreement with
// the driven PikeVM) and prints the smallest member of each cluster.
func printClusters(fs []Failure) {
	type cl struct {
		n     int
		cases map[uint64]bool
		best  Failure
		more  []Failure
		pats  map[string]bool
	}
	nex, _ := strconv.Atoi(os.Getenv("VERIF_CLUSTER_EX"))
	m := map[string]*cl{}
	for _, f := range fs {
		layer := "strategy-path"
		if f.Ref != "" && refAgrees(&f) {
			layer = "shared-nfa"
		}
		ag := apiGroup(f.API)
		if os.Getenv("VERIF_CLUSTER_API") == "" && ag != "CRASH" && ag != "STALL" && ag != "Compile" {
			ag = "*"
		}
		k := fmt.Sprintf("%-12s %-26s %-9s %s", ag, f.Strategy, f.Region, layer)
		c := m[k]
		if c == nil {
			c = &cl{cases: map[uint64]bool{}, best: f, pats: map[string]bool{}}
			m[k] = c
		}
		if !c.pats[f.Pattern] && len(c.more) < nex && len(f.Haystack) < 80 {
			c.pats[f.Pattern] = true
			c.more = append(c.more, f)
		}
		c.n++
		c.cases[f.Idx] = true
		if len(f.Pattern)+len(f.Haystack) < len(c.best.Pattern)+len(c.best.Haystack) {
			c.best = f
		}
	}
	keys := make([]string, 0, len(m))
	for k := range m {
		keys = append(keys, k)
	}
	sort.Slice(keys, func(i, j int) bool { return m[keys[i]].n > m[keys[j]].n })
	for _, k := range keys {
		c := m[k]
		fmt.Printf("CLUSTER n=%-6d cases=%-5d %s\n    e.g. i=%d %s %s pattern=%q haystack=%s got=%s want=%s ref=%s %s\n", c.n, len(c.cases), k,
			c.best.Idx, c.best.Sub, c.best.API, c.best.Pattern, clip(c.best.Haystack, 160), clip(c.best.Got, 100), clip(c.best.Want, 100), clip(c.best.Ref, 60), clip(c.best.Note, 300))
		for _, x := range c.more {
			fmt.Printf("      + i=%d %s %s pattern=%q haystack=%s got=%s want=%s ref=%s\n", x.Idx, x.Sub, x.API, x.Pattern, clip(x.Haystack, 100), clip(x.Got, 60), clip(x.Want, 60), clip(x.Ref, 40))
		}
	}
}

func apiGroup(a string) string {
	if i := strings.IndexAny(a, "(#/"); i >= 0 {
		a = a[:i]
	}
	return a
}

// refAgrees: does the subject's answer agree with the driven PikeVM on the span?
func refAgrees(f *Failure) bool {
	// Ref is a capture vector "[s e ...]" or "nil"; Got of span APIs is "[s e]" or "nil"
	if f.Ref == "nil" {
		return f.Got == "nil" || f.Got == "false" || f.Got == `""`
	}
	if strings.HasPrefix(f.Got, "[") && strings.HasPrefix(f.Ref, "[") {
		g := strings.Fields(strings.Trim(f.Got, "[]"))
		r := strings.Fields(strings.Trim(f.Ref, "[]"))
		if len(g) >= 2 && len(r) >= 2 {
			return g[0] == r[0] && g[1] == r[1]
		}
	}
	if f.Got == "true" {
		return true
	}
	return false
}

// variantOf finds the variant a recorded failure ran under (its name prefixes Sub).
func variantOf(p *Prop, sub string) Variant {
	for _, v := range p.Variants {
		if v.Name != "" && strings.HasPrefix(sub, v.Name+"|") {
			return v
		}
	}
	return Variant{}
}
