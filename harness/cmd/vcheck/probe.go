package main

import (
	"fmt"
	"regexp"
	"strconv"

	"github.com/coregx/coregex"
	"verif/obs"
)

// probe: vcheck probe <pattern> <go-quoted-haystack>...
func probe(args []string) {
	p := args[0]
	std, err := regexp.Compile(p)
	if err != nil {
		fmt.Println("stdlib:", err)
		return
	}
	cre, err := coregex.Compile(p)
	if err != nil {
		fmt.Println("coregex:", err)
		return
	}
	fmt.Println("strategy:", strategyOf(p))
	for _, hq := range args[1:] {
		h, err := strconv.Unquote(`"` + hq + `"`)
		if err != nil {
			h = hq
		}
		b := []byte(h)
		fmt.Printf("h=%q\n  std  FindSubmatchIndex=%v FindAll=%v\n  core FindIndex=%v Match=%v FindSubmatchIndex=%v FindAll=%v\n  pike=%s\n", h,
			std.FindSubmatchIndex(b), std.FindAllIndex(b, -1),
			obs.Call(func() string { return fmt.Sprint(cre.FindIndex(b)) }), obs.Call(func() string { return fmt.Sprint(cre.Match(b)) }),
			obs.Call(func() string { return fmt.Sprint(cre.FindSubmatchIndex(b)) }), obs.Call(func() string { return fmt.Sprint(cre.FindAllIndex(b, -1)) }), pikeRef(p, b))
	}
}
