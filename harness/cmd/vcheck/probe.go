package main

import (
	"fmt"
	"regexp"
	"strconv"

	"github.com/coregx/coregex"
	"github.com/coregx/coregex/meta"
	"verif/gen"
	"verif/obs"
)

// probe: vcheck probe <pattern> <go-quoted-haystack>...
func probe(args []string) {
	p := args[0]
	std, err := regexp.Compile(p)
	if err != nil {
		fmt.Println("stdlib:", err)
		return
	}
	cre, err := coregex.Compile(p)
	if err != nil {
		fmt.Println("coregex:", err)
		return
	}
	fmt.Println("strategy:", strategyOf(p))
	for _, hq := range args[1:] {
		h, err := strconv.Unquote(`"` + hq + `"`)
		if err != nil {
			h = hq
		}
		b := []byte(h)
		fmt.Printf("h=%q\n  std  FindSubmatchIndex=%v FindAll=%v\n  core FindIndex=%v Match=%v FindSubmatchIndex=%v FindAll=%v\n  pike=%s\n", h,
			std.FindSubmatchIndex(b), std.FindAllIndex(b, -1),
			obs.Call(func() string { return fmt.Sprint(cre.FindIndex(b)) }), obs.Call(func() string { return fmt.Sprint(cre.Match(b)) }),
			obs.Call(func() string { return fmt.Sprint(cre.FindSubmatchIndex(b)) }), obs.Call(func() string { return fmt.Sprint(cre.FindAllIndex(b, -1)) }), pikeRef(p, b))
	}
}

// probeCase: vcheck pcaseD <i>: run Engine.FindIndices over the case's haystacks in order on ONE engine and on fresh engines.
func probeCase(i uint64) {
	c := gen.D(i)
	std := regexp.MustCompile(c.Pattern)
	eng, _ := meta.Compile(c.Pattern)
	fmt.Printf("pattern=%q strategy=%s\n", c.Pattern, eng.Strategy())
	for k, h := range c.Haystacks {
		s, e, ok := eng.FindIndices(h)
		f, _ := meta.Compile(c.Pattern)
		fs, fe, fok := f.FindIndices(h)
		fmt.Printf("h%d %q std=%v reused=%v fresh=%v\n", k, h, std.FindIndex(h), []any{s, e, ok}, []any{fs, fe, fok})
	}
}
