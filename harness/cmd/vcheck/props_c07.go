package main

import (
	"bytes"
	"fmt"
	"regexp/syntax"
	"strconv"
	"unsafe"

	"github.com/coregx/coregex"
	"github.com/coregx/coregex/meta"
	"github.com/coregx/coregex/nfa"

	"verif/gen"
	"verif/guard"
	"verif/obs"
)

const c07MaxLen = 4 << 20

func init() {
	register(&Prop{ID: "C07", Witness: true, N: 60000, Quick: 1500, QuickFixed: 9, StallSec: 900,
		Assume: []string{"a fault on a PROT_NONE page next to the haystack, or a store to its PROT_READ data pages, is turned into a panic by debug.SetPanicOnFault (self-test Probe() at start-up; the run is INCONCLUSIVE without it)", "non-termination is decided by the supervisor's per-case watchdog (900 s without progress, >1000× the median case) and then confirmed by replay; a panic or fatal error by the worker's exit status and journal"},
		Rule:   "case i = (a) the arbitrary pattern string P(i) (random bytes, token soup, mutated valid patterns, invalid UTF-8, nesting/repeat/size limit families): Compile, CompilePOSIX, meta.Compile and QuoteMeta must return; when it compiles, it is searched too; (b) the pattern of G(D,i) with its 6 haystacks of all three input regions and, for every 40th case, a haystack of 70 000 – 1 048 576 bytes (past the backtracker's visited caps and the windowed fallbacks). Every haystack is placed flush against a PROT_NONE page (right and left alternately) on PROT_READ data pages, strings are views of the same guarded bytes; every public search/replace/split/iterator method of Regex and the offset-taking methods of meta.Engine (at in {0, mid, len, len+1}) are called; every returned value must satisfy the well-formedness predicates (span order and bounds, groups inside group 0 or -1/-1, len(submatch)=NumSubexp+1, FindAll ordered/non-overlapping/progressing, returned slices alias the input at the reported offsets, haystack bytes unchanged); one evaluation = one checked call; distinct_nontrivial = distinct (pattern, haystack, API) whose result carried at least one span",
		Init:   initC07,
		Run:    runC07})
}

var c07Fixed = []string{`(\w{2,8})+`, `^(?:\pL+ )+\d`, `^(\pL|\d)+$`, `^(.+)-(\pL+)$`, `(\pL+)\s(\pL+)`, `((\pL{2})+)\d`, `(\w\w?\w?\w?\w?\w?\w?)+`, `([a-z]{1,12}\d?)+`, `(\w\w?)`}

func initC07(w *W) {
	guard.Enable()
	if !guard.Probe() {
		w.Inconclusive("guard-page faults are not caught in this process")
		return
	}
	r, err := guard.NewRegion(c07MaxLen + 64)
	if err != nil {
		w.Inconclusive("mmap failed: " + err.Error())
		return
	}
	w.aux = r
	w.Count("instrument:guard-probe-ok", 1)
}

type c07ctx struct {
	w       *W
	idx     uint64
	pattern string
	region  string
	nsub    int
	evals   int
	fails   map[string]int
	first   map[string]string
}

func (c *c07ctx) bad(api string, h []byte, format string, a ...any) {
	k := api
	c.fails[k]++
	if c.first[k] == "" {
		hq := strconv.Quote(string(h))
		if len(hq) > 300 {
			hq = hq[:300] + fmt.Sprintf("…(%d bytes)", len(h))
		}
		c.first[k] = fmt.Sprintf(format, a...) + " h=" + hq
	}
}

// span checks 0 <= s <= e <= n.
func okSpan(s, e, n int) bool { return 0 <= s && s <= e && e <= n }

func (c *c07ctx) wfLoc(api string, h []byte, loc []int) bool {
	if loc == nil {
		return false
	}
	if len(loc) != 2 || !okSpan(loc[0], loc[1], len(h)) {
		c.bad(api, h, "ill-formed span %v (len %d)", loc, len(h))
		return false
	}
	return true
}

func (c *c07ctx) wfSub(api string, h []byte, m []int) bool {
	if m == nil {
		return false
	}
	if len(m) != 2*(c.nsub+1) {
		c.bad(api, h, "len(submatch index)=%d, want %d", len(m), 2*(c.nsub+1))
		return false
	}
	if !okSpan(m[0], m[1], len(h)) {
		c.bad(api, h, "ill-formed group 0 %v (len %d)", m[:2], len(h))
		return false
	}
	for g := 1; g <= c.nsub; g++ {
		s, e := m[2*g], m[2*g+1]
		if s == -1 && e == -1 {
			continue
		}
		if !(m[0] <= s && s <= e && e <= m[1]) {
			c.bad(api, h, "group %d = [%d %d] not inside group 0 %v", g, s, e, m[:2])
			return false
		}
	}
	return true
}

// wfAll: ordered, non-overlapping, progressing.
func (c *c07ctx) wfAll(api string, h []byte, all [][]int, n int, sub bool) bool {
	if n >= 0 && len(all) > n {
		c.bad(api, h, "%d results for n=%d", len(all), n)
	}
	prevS, prevE := -1, -1
	for k, m := range all {
		ok := false
		if sub {
			ok = c.wfSub(api, h, m)
		} else {
			ok = c.wfLoc(api, h, m)
		}
		if !ok {
			if m == nil {
				c.bad(api, h, "nil element %d", k)
			}
			return false
		}
		if k > 0 {
			if m[0] < prevE || (m[0] == prevS && m[1] == prevE) || m[0] < prevS {
				c.bad(api, h, "matches %d and %d overlap or do not progress: [%d %d] then %v", k-1, k, prevS, prevE, m[:2])
				return false
			}
		}
		prevS, prevE = m[0], m[1]
	}
	return len(all) > 0
}

func addrOf(b []byte) uintptr {
	return uintptr(unsafe.Pointer(unsafe.SliceData(b)))
}

// alias: a returned non-empty slice must be h[s:e] itself.
func (c *c07ctx) alias(api string, h, got []byte, s, e int) {
	if got == nil {
		return
	}
	if len(got) != e-s {
		c.bad(api, h, "returned slice has length %d, span is [%d %d]", len(got), s, e)
		return
	}
	if cap(got) != len(got) {
		c.bad(api, h, "returned slice is not capacity-limited (len %d cap %d): append would write into the haystack", len(got), cap(got))
		return
	}
	if len(got) > 0 && addrOf(got) != addrOf(h)+uintptr(s) {
		c.bad(api, h, "returned slice does not alias the input at [%d %d]", s, e)
	}
}

func (c *c07ctx) call(api string, h []byte, f func()) bool {
	c.evals++
	v := obs.Call(func() string { f(); return "" })
	if v != "" {
		c.bad(api, h, "%s", v)
		return false
	}
	return true
}

func strAddr(s string) uintptr { return uintptr(unsafe.Pointer(unsafe.StringData(s))) }

func (c *c07ctx) search(re *coregex.Regex, eng *meta.Engine, h []byte, s string, big bool) {
	w := c.w
	nt := func(api string) { w.Nontrivial(c.pattern, string(h[:min(len(h), 64)]), strconv.Itoa(len(h)), api) }
	c.call("Match", h, func() { re.Match(h) })
	c.call("MatchString", h, func() { re.MatchString(s) })
	var loc []int
	if c.call("FindIndex", h, func() { loc = re.FindIndex(h) }) && c.wfLoc("FindIndex", h, loc) {
		nt("FindIndex")
		var f []byte
		if c.call("Find", h, func() { f = re.Find(h) }) {
			if f == nil {
				c.bad("Find", h, "nil although FindIndex=%v", loc)
			} else {
				c.alias("Find", h, f, loc[0], loc[1])
			}
		}
		var fs string
		if c.call("FindString", h, func() { fs = re.FindString(s) }) && len(fs) > 0 && strAddr(fs) != strAddr(s)+uintptr(loc[0]) {
			c.bad("FindString", h, "result does not alias the input string at %v", loc)
		}
	}
	c.call("FindStringIndex", h, func() { c.wfLoc("FindStringIndex", h, re.FindStringIndex(s)) })
	var m []int
	if c.call("FindSubmatchIndex", h, func() { m = re.FindSubmatchIndex(h) }) && c.wfSub("FindSubmatchIndex", h, m) {
		nt("FindSubmatchIndex")
		var sm [][]byte
		if c.call("FindSubmatch", h, func() { sm = re.FindSubmatch(h) }) && sm != nil {
			if len(sm) != c.nsub+1 {
				c.bad("FindSubmatch", h, "len=%d want %d", len(sm), c.nsub+1)
			} else {
				for g := range sm {
					if m[2*g] >= 0 {
						c.alias("FindSubmatch", h, sm[g], m[2*g], m[2*g+1])
					}
				}
			}
		}
	}
	c.call("FindStringSubmatchIndex", h, func() { c.wfSub("FindStringSubmatchIndex", h, re.FindStringSubmatchIndex(s)) })
	c.call("FindStringSubmatch", h, func() {
		if r := re.FindStringSubmatch(s); r != nil && len(r) != c.nsub+1 {
			c.bad("FindStringSubmatch", h, "len=%d want %d", len(r), c.nsub+1)
		}
	})
	ns := []int{-1, 2}
	if big {
		ns = []int{12}
	}
	for _, n := range ns {
		sn := "(" + strconv.Itoa(n) + ")"
		var all [][]int
		if c.call("FindAllIndex"+sn, h, func() { all = re.FindAllIndex(h, n) }) && c.wfAll("FindAllIndex"+sn, h, all, n, false) {
			nt("FindAllIndex" + sn)
			var fa [][]byte
			if c.call("FindAll"+sn, h, func() { fa = re.FindAll(h, n) }) && len(fa) == len(all) {
				for k := range fa {
					c.alias("FindAll"+sn, h, fa[k], all[k][0], all[k][1])
				}
			}
		}
		c.call("FindAllStringIndex"+sn, h, func() { c.wfAll("FindAllStringIndex"+sn, h, re.FindAllStringIndex(s, n), n, false) })
		c.call("FindAllSubmatchIndex"+sn, h, func() { c.wfAll("FindAllSubmatchIndex"+sn, h, re.FindAllSubmatchIndex(h, n), n, true) })
		c.call("FindAllStringSubmatchIndex"+sn, h, func() {
			c.wfAll("FindAllStringSubmatchIndex"+sn, h, re.FindAllStringSubmatchIndex(s, n), n, true)
		})
		c.call("FindAllSubmatch"+sn, h, func() {
			for _, g := range re.FindAllSubmatch(h, n) {
				if len(g) != c.nsub+1 {
					c.bad("FindAllSubmatch"+sn, h, "len=%d want %d", len(g), c.nsub+1)
				}
			}
		})
		c.call("FindAllStringSubmatch"+sn, h, func() { re.FindAllStringSubmatch(s, n) })
		c.call("FindAllString"+sn, h, func() { re.FindAllString(s, n) })
		c.call("Count"+sn, h, func() {
			if k := re.Count(h, n); k < 0 || (n >= 0 && k > n) {
				c.bad("Count"+sn, h, "Count=%d for n=%d", k, n)
			}
		})
		c.call("CountString"+sn, h, func() { re.CountString(s, n) })
		c.call("AppendAllIndex"+sn, h, func() {
			var a [][]int
			for _, m := range re.AppendAllIndex(nil, h, n) {
				a = append(a, []int{m[0], m[1]})
			}
			c.wfAll("AppendAllIndex"+sn, h, a, n, false)
		})
		c.call("AppendAllStringIndex"+sn, h, func() { re.AppendAllStringIndex(nil, s, n) })
		c.call("Split"+sn, h, func() {
			parts := re.Split(s, n)
			tot := 0
			for _, p := range parts {
				tot += len(p)
				if len(p) > 0 && (strAddr(p) < strAddr(s) || strAddr(p)+uintptr(len(p)) > strAddr(s)+uintptr(len(s))) {
					c.bad("Split"+sn, h, "piece is not a substring of the input")
				}
			}
			if tot > len(s) {
				c.bad("Split"+sn, h, "pieces are longer than the input")
			}
		})
	}
	c.call("AllIndex", h, func() {
		var a [][]int
		for m := range re.AllIndex(h) {
			a = append(a, []int{m[0], m[1]})
			if big && len(a) >= 3 {
				break
			}
		}
		c.wfAll("AllIndex", h, a, -1, false)
	})
	c.call("AllStringIndex", h, func() {
		k := 0
		for range re.AllStringIndex(s) {
			if k++; big && k >= 3 {
				break
			}
		}
	})
	c.call("All", h, func() {
		k := 0
		for b := range re.All(h) {
			if len(b) > 0 && (addrOf(b) < addrOf(h) || addrOf(b)+uintptr(len(b)) > addrOf(h)+uintptr(len(h))) {
				c.bad("All", h, "yielded slice is outside the input")
			}
			if k++; big && k >= 3 {
				break
			}
		}
	})
	c.call("AllString", h, func() {
		k := 0
		for range re.AllString(s) {
			if k++; big && k >= 3 {
				break
			}
		}
	})
	c.call("MatchReader", h, func() { re.MatchReader(obs.Reader(h)) })
	c.call("FindReaderIndex", h, func() { c.wfLoc("FindReaderIndex", h, re.FindReaderIndex(obs.Reader(h))) })
	c.call("FindReaderSubmatchIndex", h, func() { c.wfSub("FindReaderSubmatchIndex", h, re.FindReaderSubmatchIndex(obs.Reader(h))) })
	if !big {
		repl := []byte("<$1$0${x}>")
		c.call("ReplaceAll", h, func() { re.ReplaceAll(h, repl) })
		c.call("ReplaceAllString", h, func() { re.ReplaceAllString(s, "[$0]") })
		c.call("ReplaceAllLiteral", h, func() { re.ReplaceAllLiteral(h, repl) })
		c.call("ReplaceAllLiteralString", h, func() { re.ReplaceAllLiteralString(s, "$1") })
		c.call("ReplaceAllFunc", h, func() {
			re.ReplaceAllFunc(h, func(b []byte) []byte {
				if len(b) > 0 && (addrOf(b) < addrOf(h) || addrOf(b)+uintptr(len(b)) > addrOf(h)+uintptr(len(h))) {
					c.bad("ReplaceAllFunc", h, "callback argument is outside the input")
				}
				return nil
			})
		})
		c.call("ReplaceAllStringFunc", h, func() { re.ReplaceAllStringFunc(s, func(x string) string { return x + x }) })
		// Expand with match slices of every length class (values inside the input)
		for _, ml := range [][]int{nil, {}, {0}, m, append(append([]int(nil), m...), 0, len(h)), {0, len(h)}, {-1, -1, 0, 0}} {
			ml := ml
			c.call("Expand", h, func() { re.Expand(nil, []byte("$0-$1-${2}-$9-$name-$$"), h, ml) })
			c.call("ExpandString", h, func() { re.ExpandString([]byte("x"), "${1}$0$", s, ml) })
		}
	}
	// meta.Engine offset-taking entry points
	if eng != nil {
		ats := []int{0, len(h) / 2, len(h), len(h) + 1}
		for _, at := range ats {
			sa := "(at=" + [...]string{"0", "mid", "len", "len+1"}[indexOfInt(ats, at)] + ")"
			c.call("Engine.FindIndicesAt"+sa, h, func() {
				s0, e0, ok := eng.FindIndicesAt(h, at)
				if ok && !(okSpan(s0, e0, len(h)) && s0 >= at) {
					c.bad("Engine.FindIndicesAt"+sa, h, "span [%d %d] for at=%d len=%d", s0, e0, at, len(h))
				}
			})
			c.call("Engine.FindAt"+sa, h, func() {
				if mm := eng.FindAt(h, at); mm != nil && !(okSpan(mm.Start(), mm.End(), len(h)) && mm.Start() >= at) {
					c.bad("Engine.FindAt"+sa, h, "span [%d %d] for at=%d len=%d", mm.Start(), mm.End(), at, len(h))
				}
			})
			c.call("Engine.FindSubmatchAt"+sa, h, func() {
				if mm := eng.FindSubmatchAt(h, at); mm != nil {
					if !(okSpan(mm.Start(), mm.End(), len(h)) && mm.Start() >= at) {
						c.bad("Engine.FindSubmatchAt"+sa, h, "span [%d %d] for at=%d len=%d", mm.Start(), mm.End(), at, len(h))
					}
					for g := 0; g < mm.NumCaptures(); g++ {
						if gi := mm.GroupIndex(g); gi != nil && (len(gi) != 2 || !(gi[0] == -1 && gi[1] == -1) && !(mm.Start() <= gi[0] && gi[0] <= gi[1] && gi[1] <= mm.End())) {
							c.bad("Engine.FindSubmatchAt"+sa, h, "group %d = %v outside [%d %d]", g, gi, mm.Start(), mm.End())
						}
					}
				}
			})
		}
		c.call("Engine.IsMatch", h, func() { eng.IsMatch(h) })
		c.call("Engine.FindAllIndicesStreaming", h, func() {
			var a [][]int
			for _, m := range eng.FindAllIndicesStreaming(h, 4, nil) {
				a = append(a, []int{m[0], m[1]})
			}
			c.wfAll("Engine.FindAllIndicesStreaming", h, a, 4, false)
		})
		c.call("Engine.FindAllSubmatch", h, func() { eng.FindAllSubmatch(h, 3) })
	}
}

func indexOfInt(a []int, v int) int {
	for i, x := range a {
		if x == v {
			return i
		}
	}
	return 0
}

func runC07(w *W, i uint64) {
	reg, _ := w.aux.(*guard.Region)
	if reg == nil {
		return
	}
	// (a) arbitrary pattern string
	ps, fam := gen.PString(i)
	w.Count("pfamily:"+fam, 1)
	var reA *coregex.Regex
	var engA *meta.Engine
	apisA := []string{"Compile", "CompilePOSIX", "meta.Compile", "QuoteMeta+Compile"}
	heavy := utf8Cost(ps) > 6000
	if heavy {
		// e.g. (\pL{11}){10}: several hundred thousand NFA states; compiling takes seconds and searching
		// minutes (linear, but too slow to run every API): Compile alone is required to return.
		apisA = apisA[:1]
		w.Count("event:heavy-pattern-compile-only", 1)
	}
	for _, api := range apisA {
		api := api
		v := obs.Call(func() string {
			switch api {
			case "Compile":
				r, err := coregex.Compile(ps)
				if err == nil {
					reA = r
				}
			case "CompilePOSIX":
				coregex.CompilePOSIX(ps)
			case "meta.Compile":
				e, err := meta.Compile(ps)
				if err == nil {
					engA = e
				}
			default:
				if _, err := coregex.Compile(coregex.QuoteMeta(ps)); err != nil && validUTF8(ps) {
					return "QuoteMeta(p) does not compile: " + err.Error()
				}
			}
			return ""
		})
		w.Eval(1)
		if v != "" {
			w.Fail(Failure{Idx: i, Sub: "pstring/" + fam, API: api, Got: v, Want: "returns normally", Pattern: ps})
		}
	}
	run := func(sub, pattern string, re *coregex.Regex, eng *meta.Engine, hs [][]byte, region string, bigFrom int) {
		c := &c07ctx{w: w, idx: i, pattern: pattern, region: region, nsub: re.NumSubexp(), fails: map[string]int{}, first: map[string]string{}}
		for k, h0 := range hs {
			right := (int(i)+k)%2 == 0
			h := reg.Place(h0, right, true)
			s := guard.String(h)
			c.search(re, eng, h, s, k >= bigFrom)
			if !bytes.Equal(h, h0) {
				c.bad("haystack-modified", h0, "haystack bytes changed during the calls")
			}
		}
		w.Eval(c.evals)
		for api, n := range c.fails {
			w.Fail(Failure{Idx: i, Sub: sub, API: api, Got: fmt.Sprintf("%d ill-formed/abnormal results; first: %s", n, clip(c.first[api], 700)), Want: "well-formed result, normal return", Pattern: pattern, Region: region, Strategy: strategyOf(pattern)})
		}
	}
	if reA != nil && !heavy {
		w.Count("event:pstring-compiled", 1)
		r := gen.Rng("C07a", i)
		re0, ok := gen.Valid(ps)
		var hs [][]byte
		if ok {
			hs = gen.Haystacks(r, re0, gen.RegionOf(i), 3)
		} else {
			// coregex accepted a pattern stdlib's parser rejects: still must be total on it
			w.Count("event:pstring-compiled-but-stdlib-rejects", 1)
			hs = [][]byte{[]byte(ps), []byte("a\xffb é\n"), nil}
		}
		// the NFA simulation costs states × bytes per call and ~150 calls are made per haystack:
		// keep (pattern bytes × haystack bytes) bounded so that a case stays far below the watchdog
		limit := max(32, 2_000_000/(len(ps)+1))
		for k := range hs {
			if len(hs[k]) > limit {
				hs[k] = hs[k][:limit]
				w.Count("event:pstring-haystack-truncated", 1)
			}
		}
		run("pstring/"+fam, ps, reA, engA, hs, gen.RegionOf(i).String(), len(hs))
	}
	// (b) generated valid pattern with derived haystacks
	c := gen.D(i)
	fixedCase := false
	if i < uint64(len(c07Fixed)) {
		// fixed part of every run: backtracker-strategy patterns whose capacity limit lies below 1 MiB
		fixedCase = true
		c.Pattern = c07Fixed[i]
		c.Region = gen.ASCII
		if re1, ok := gen.Valid(c.Pattern); ok {
			c.Haystacks = gen.Haystacks(gen.Rng("C07f", i), re1, gen.ASCII, 6)
		}
	}
	re, err := coregex.Compile(c.Pattern)
	if err != nil {
		w.Count("event:D-pattern-not-compiled", 1)
		return
	}
	eng, _ := meta.Compile(c.Pattern)
	hs := append([][]byte(nil), c.Haystacks...)
	bigFrom := len(hs)
	// size classes: every 40th case a large haystack; for backtracker-strategy patterns (every 6th of them, and the
	// fixed cases below) the size just above the backtracker's capacity 32M/states, where the windowed /
	// bidirectional-DFA / PikeVM fallbacks take over
	oversize := 0
	if st := strategyOf(c.Pattern); st == "UseBoundedBacktracker" && (fixedCase || i%6 == 0) {
		if n0, err := nfa.NewDefaultCompiler().Compile(c.Pattern); err == nil {
			if lim := (32<<20)/n0.States() + 1000; lim <= c07MaxLen {
				oversize = lim
			}
		}
	}
	if i%40 == 0 || oversize > 0 {
		r := gen.Rng("C07b", i)
		re0, _ := gen.Valid(c.Pattern)
		sizes := []int{70000, 140000, 300000, 1 << 20}
		n := sizes[r.IntN(len(sizes))]
		if oversize > 0 {
			n = oversize
			w.Count("event:oversize-haystack-for-backtracker", 1)
		} else if n0, err := nfa.NewDefaultCompiler().Compile(c.Pattern); err == nil && n0.States()*n > 40_000_000 {
			// the NFA simulation costs states x bytes per call and ~60 calls are made on the large haystack:
			// keep one call below ~4e7 steps (a \pL+ automaton has ~6000 states)
			n = max(4096, 40_000_000/n0.States())
			w.Count("event:big-haystack-scaled-to-nfa-size", 1)
		}
		alpha := gen.Alphabet(re0, c.Region)
		big := make([]byte, 0, n)
		smp := gen.Sample(r, re0, c.Region)
		for len(big) < n {
			if (r.IntN(50) == 0 || (oversize > 0 && r.IntN(3) == 0)) && len(smp) > 0 && len(big)+len(smp) <= n {
				big = append(big, smp...)
			} else {
				big = append(big, alpha[r.IntN(len(alpha))]...)
			}
		}
		big = big[:n]
		hs = append(hs, big)
		w.Count("event:big-haystack", 1)
		w.Count("event:big-haystack-bytes", n)
	}
	caseStats(w, &c)
	run("D", c.Pattern, re, eng, hs, c.Region.String(), bigFrom)
	w.Sample(map[string]any{"i": i, "pstring_family": fam, "pstring_q": clip(strconv.Quote(ps), 120), "pstring_compiled": reA != nil, "pattern": c.Pattern, "haystacks": len(hs)})
}

func validUTF8(s string) bool {
	for _, r := range s {
		if r == 0xFFFD {
			return false
		}
	}
	return true
}

// utf8Cost is a deterministic proxy for the size of the UTF-8 automaton of a pattern: the number of
// non-ASCII class ranges after repeats have been expanded.
func utf8Cost(p string) int {
	re, err := syntax.Parse(p, syntax.Perl)
	if err != nil {
		return 0
	}
	var walk func(re *syntax.Regexp, mult int) int
	walk = func(re *syntax.Regexp, mult int) int {
		switch re.Op {
		case syntax.OpCharClass:
			n := 0
			for k := 0; k+1 < len(re.Rune); k += 2 {
				if re.Rune[k+1] >= 0x80 {
					n++
				}
			}
			return n * mult
		case syntax.OpAnyChar, syntax.OpAnyCharNotNL:
			return 8 * mult
		case syntax.OpRepeat:
			m := re.Max
			if m < re.Min {
				m = re.Min + 1
			}
			if m < 1 {
				m = 1
			}
			if mult*m > 1<<24 {
				return 1 << 24
			}
			return walk(re.Sub[0], mult*m)
		}
		t := 0
		for _, s := range re.Sub {
			t += walk(s, mult)
			if t > 1<<24 {
				return 1 << 24
			}
		}
		return t
	}
	return walk(re, 1)
}
