package main

import (
	"fmt"
	"regexp"
	"strconv"
	"unicode/utf8"

	"github.com/coregx/coregex"
	"github.com/coregx/coregex/meta"
	"github.com/coregx/coregex/nfa"

	"verif/gen"
	"verif/obs"
)

// c12Grid is the meta configuration grid (DESIGN Appendix C.4).
var c12Grid = func() []meta.Config {
	var g []meta.Config
	for _, dfa := range []bool{true, false} {
		for _, pf := range []bool{true, false} {
			for _, st := range []uint32{1, 2, 16, 10000} {
				for _, dl := range []int{10, 1000} {
					for _, mll := range []int{1, 2, 3, 8, 64} {
						for _, ml := range []int{1, 2, 8, 64, 256, 1000} {
							for _, rd := range []int{100, 1000} {
								for _, ao := range []bool{true, false} {
									g = append(g, meta.Config{EnableDFA: dfa, EnablePrefilter: pf, MaxDFAStates: st, DeterminizationLimit: dl,
										MinLiteralLen: mll, MaxLiterals: ml, MaxRecursionDepth: rd, EnableASCIIOptimization: ao})
								}
							}
						}
					}
				}
			}
		}
	}
	return g
}()

func init() {
	register(&Prop{ID: "C12", Witness: true, N: diffN, Quick: 4000, Variants: cpuVariants,
		Assume: []string{"the directly driven nfa.PikeVM (NewDefaultCompiler + NewPikeVM, enumeration by stdlib's resume rule) is the plain NFA simulation", "CPU masks via GODEBUG are honoured by golang.org/x/sys/cpu (flags recorded in evidence)"},
		Rule:   "cases G(D,i) (plus two boundary-byte variants of the haystacks: 0x7f, 0x00, 0x0b, 0x09 substituted); each pattern is compiled under the default configuration and under 5 index-chosen configurations of the grid EnableDFA × EnablePrefilter × MaxDFAStates{1,2,16,10000} × DeterminizationLimit{10,1000} × MinLiteralLen{1,2,3,8,64} × MaxLiterals{1,2,8,64,256,1000} × MaxRecursionDepth{100,1000} × ASCII optimisation (only configurations passing Validate()); Match, FindIndex, FindSubmatchIndex and FindAllIndex(-1) must agree with the default configuration and with the driven PikeVM; the whole run is repeated under three CPU masks and per-case result digests are compared across the three processes; one evaluation = one compared result; distinct_nontrivial = distinct (pattern, configuration, haystack) triples with a match",
		Triage: triageC12,
		Run:    runC12})
}

func triageC12(f *Failure) string { return triageDiff(f) }

// pikeAll enumerates successive matches with the driven PikeVM and stdlib's resume rule.
func pikeAll(vm *nfa.PikeVM, h []byte) string {
	var out [][]int
	pos, prevEnd := 0, -1
	for pos <= len(h) {
		s, e, ok := vm.SearchAt(h, pos)
		if !ok {
			break
		}
		accept := true
		if e == pos && s == e { // empty match at pos
			if s == prevEnd {
				accept = false
			}
			if pos < len(h) {
				_, w := utf8.DecodeRune(h[pos:])
				pos += w
			} else {
				pos = len(h) + 1
			}
		} else if s == e { // empty match further right
			pos = e
			// deliver now; the next round finds it again at pos and skips it through prevEnd
		} else {
			pos = e
		}
		if accept {
			out = append(out, []int{s, e})
		}
		prevEnd = e
		if len(out) > 10000 {
			break
		}
	}
	return obs.Ints2(out)
}

func runC12(w *W, i uint64) {
	c := gen.D(i)
	if _, err := regexp.Compile(c.Pattern); err != nil {
		return
	}
	def, err := coregex.Compile(c.Pattern)
	if err != nil {
		return
	}
	caseStats(w, &c)
	var vm *nfa.PikeVM
	if n, err := nfa.NewDefaultCompiler().Compile(c.Pattern); err == nil {
		vm = nfa.NewPikeVM(n)
	}
	type cfgRe struct {
		name string
		re   *coregex.Regex
	}
	var cfgs []cfgRe
	for k := 0; k < 5; k++ {
		ci := int((i*13 + uint64(k)*977) % uint64(len(c12Grid)))
		cfg := c12Grid[ci]
		if cfg.Validate() != nil {
			w.Count("event:config-invalid-skipped", 1)
			continue
		}
		var r *coregex.Regex
		var cerr error
		v := obs.Call(func() string {
			r, cerr = coregex.CompileWithConfig(c.Pattern, cfg)
			return ""
		})
		name := fmt.Sprintf("cfg%d{dfa=%v pf=%v st=%d dl=%d mll=%d ml=%d rd=%d ascii=%v}", ci, cfg.EnableDFA, cfg.EnablePrefilter, cfg.MaxDFAStates, cfg.DeterminizationLimit, cfg.MinLiteralLen, cfg.MaxLiterals, cfg.MaxRecursionDepth, cfg.EnableASCIIOptimization)
		if v != "" {
			w.Fail(Failure{Idx: i, Sub: "-", API: "CompileWithConfig", Got: v, Want: "ok", Pattern: c.Pattern, Note: name})
			continue
		}
		if cerr != nil {
			w.Count("event:config-compile-declined", 1) // e.g. depth limit: recorded, not compared
			continue
		}
		cfgs = append(cfgs, cfgRe{name, r})
		w.Count("event:config-compiled", 1)
	}
	// boundary-byte variants of the first two haystacks: every third byte replaced by 0x7f / 0x00 / 0x0b / 0x09, the
	// bytes at which ASCII-only automata, line handling and byte-class boundaries differ
	hs12 := append([][]byte(nil), c.Haystacks...)
	for v, src := range c.Haystacks {
		if v >= 2 || len(src) == 0 || c.Region != gen.ASCII {
			break
		}
		b := append([]byte(nil), src...)
		for q := 1 + v; q < len(b); q += 3 {
			b[q] = []byte{0x7f, 0x00, 0x0b, 0x09}[(q+v)%4]
		}
		hs12 = append(hs12, b)
	}
	digestAll := ""
	for k, h := range hs12 {
		view := func(re *coregex.Regex) []obs.Rec {
			return []obs.Rec{
				{API: "Match", Val: obs.Call(func() string { return fmt.Sprint(re.Match(h)) })},
				{API: "FindIndex", Val: obs.Call(func() string { return obs.Ints(re.FindIndex(h)) })},
				{API: "FindSubmatchIndex", Val: obs.Call(func() string { return obs.Ints(re.FindSubmatchIndex(h)) })},
				{API: "FindAllIndex(-1)", Val: obs.Call(func() string { return obs.Ints2(re.FindAllIndex(h, -1)) })},
			}
		}
		base := view(def)
		for _, b := range base {
			digestAll += b.Val + ";"
		}
		matched := base[1].Val != "nil"
		// default vs plain NFA simulation
		if vm != nil {
			var ref []obs.Rec
			s, e, ok := 0, 0, false
			rv := obs.Call(func() string { s, e, ok = vm.Search(h); return "" })
			fi := "nil"
			if ok {
				fi = fmt.Sprint([]int{s, e})
			}
			if rv != "" {
				fi = rv
			}
			ref = append(ref, obs.Rec{API: "nfa/Match", Val: fmt.Sprint(ok)}, obs.Rec{API: "nfa/FindIndex", Val: fi},
				obs.Rec{API: "nfa/FindSubmatchIndex", Val: pikeRefCaps(vm, h)}, obs.Rec{API: "nfa/FindAllIndex(-1)", Val: obs.Call(func() string { return pikeAll(vm, h) })})
			got := make([]obs.Rec, len(base))
			for q := range base {
				got[q] = obs.Rec{API: ref[q].API, Val: base[q].Val}
			}
			compare(w, &c, "h"+strconv.Itoa(k), h, got, ref, matched)
		}
		for _, cr := range cfgs {
			got := view(cr.re)
			want := make([]obs.Rec, len(base))
			for q := range got {
				got[q].API = "config/" + got[q].API
				want[q] = obs.Rec{API: got[q].API, Val: base[q].Val}
			}
			nf := w.failures
			compare(w, &c, "h"+strconv.Itoa(k)+"/"+cr.name, h, got, want, matched)
			if w.failures != nf {
				w.Count("event:config-disagreement", 1)
			}
		}
		if k == 0 {
			w.Sample(map[string]any{"i": c.Index, "pattern": c.Pattern, "haystack_q": strconv.Quote(string(h)), "default_FindIndex": base[1].Val, "configs": len(cfgs)})
		}
	}
	w.Digest(i, digest(digestAll))
}

func pikeRefCaps(vm *nfa.PikeVM, h []byte) (s string) {
	defer func() {
		if r := recover(); r != nil {
			s = "PANIC"
		}
	}()
	m := vm.SearchWithCaptures(h)
	if m == nil {
		return "nil"
	}
	var out []int
	for _, idx := range m.Captures {
		if idx == nil {
			out = append(out, -1, -1)
		} else {
			out = append(out, idx[0], idx[1])
		}
	}
	return fmt.Sprint(out)
}
