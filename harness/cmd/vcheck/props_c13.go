package main

import (
	"bytes"
	"fmt"
	"regexp"
	"runtime"
	"strconv"

	"github.com/coregx/coregex"
	"github.com/coregx/coregex/meta"

	"verif/gen"
	"verif/obs"
)

func init() {
	register(&Prop{ID: "C13", Witness: true, N: 20000, Quick: 800, StallSec: 900,
		Assume: []string{"the reference for a call is the same call on a value compiled freshly for that call (no external oracle)", "the history of a value is driven in one goroutine (concurrent histories belong to C06)"},
		Rule:   "case = one pattern G(D,i) under the default configuration, in leftmost-longest mode and under two small-cache configurations (MaxDFAStates 2 and 16); a long-lived Regex and a long-lived meta.Engine receive a history of 36 index-chosen calls (Match, FindIndex, FindSubmatchIndex, FindAllIndex, Count, ReplaceAll, FindAllSubmatchIndex, Engine.FindIndices/IsMatch/Count/FindSubmatch) over the case's haystacks, haystacks of neighbouring cases, cache-churning random walks a 70,000-byte haystack for every 50th case, and for every 8th case an epoch wrap in the middle of the history: cheap calls until the 16-bit generation of the parked backtracker state (read through the verif hook) is back at its value after step 0, then steps 1-16 are replayed under the same generation numbers as their first execution, with runtime.GC() in between; after EVERY call the result is compared with the same call on a fresh value, and every 6th call is repeated; one evaluation = one compared call; distinct_nontrivial = distinct (pattern, config, history position) triples where the fresh value reports a match",
		Triage: func(f *Failure) string { return "" },
		Run:    runC13})
}

func runC13(w *W, i uint64) {
	c := gen.D(i)
	if _, err := regexp.Compile(c.Pattern); err != nil {
		return
	}
	caseStats(w, &c)
	r := gen.Rng("C13", i)
	// haystack pool
	pool := append([][]byte(nil), c.Haystacks...)
	nb := gen.D((i + 1) % 40000)
	pool = append(pool, nb.Haystacks[:3]...)
	re0, _ := gen.Valid(c.Pattern)
	alpha := gen.Alphabet(re0, c.Region)
	walk := func(n int) []byte {
		var b []byte
		for len(b) < n {
			b = append(b, alpha[r.IntN(len(alpha))]...)
		}
		return b
	}
	pool = append(pool, walk(300), walk(2000), walk(40))
	if i%50 == 0 {
		big := bytes.Repeat([]byte{'#'}, 70000)
		copy(big[69000:], gen.Sample(r, re0, c.Region))
		pool = append(pool, big)
		w.Count("event:generation-wrap-haystack", 1)
	}
	cfgs := []struct {
		name string
		cfg  *meta.Config
	}{{"default", nil}}
	for _, st := range []uint32{2, 16} {
		cf := meta.DefaultConfig()
		cf.MaxDFAStates = st
		cfgs = append(cfgs, struct {
			name string
			cfg  *meta.Config
		}{"MaxDFAStates=" + strconv.Itoa(int(st)), &cf})
	}
	cfgs = append(cfgs, struct {
		name string
		cfg  *meta.Config
	}{"longest", nil})
	for _, cf := range cfgs {
		compile := func() (*coregex.Regex, *meta.Engine) {
			if cf.cfg == nil {
				re, err := coregex.Compile(c.Pattern)
				if err != nil {
					return nil, nil
				}
				e, _ := meta.Compile(c.Pattern)
				if cf.name == "longest" && e != nil {
					// leftmost-longest mode: other loops of the simulators (early termination, longest tracking)
					re.Longest()
					e.SetLongest(true)
				}
				return re, e
			}
			re, err := coregex.CompileWithConfig(c.Pattern, *cf.cfg)
			if err != nil {
				return nil, nil
			}
			e, _ := meta.CompileWithConfig(c.Pattern, *cf.cfg)
			return re, e
		}
		V, E := compile()
		if V == nil || E == nil {
			continue
		}
		evals := 0
		type callT struct {
			name string
			f    func(re *coregex.Regex, e *meta.Engine, h []byte) string
		}
		calls := []callT{
			{"Match", func(re *coregex.Regex, e *meta.Engine, h []byte) string { return fmt.Sprint(re.Match(h)) }},
			{"FindIndex", func(re *coregex.Regex, e *meta.Engine, h []byte) string { return obs.Ints(re.FindIndex(h)) }},
			{"FindSubmatchIndex", func(re *coregex.Regex, e *meta.Engine, h []byte) string { return obs.Ints(re.FindSubmatchIndex(h)) }},
			{"FindAllIndex", func(re *coregex.Regex, e *meta.Engine, h []byte) string { return obs.Ints2(re.FindAllIndex(h, -1)) }},
			{"Count", func(re *coregex.Regex, e *meta.Engine, h []byte) string { return strconv.Itoa(re.Count(h, -1)) }},
			{"ReplaceAll", func(re *coregex.Regex, e *meta.Engine, h []byte) string {
				return obs.Content(re.ReplaceAll(h, []byte("<$0>")))
			}},
			{"FindAllSubmatchIndex", func(re *coregex.Regex, e *meta.Engine, h []byte) string {
				return obs.Ints2(re.FindAllSubmatchIndex(h, 3))
			}},
			{"Engine.FindIndices", func(re *coregex.Regex, e *meta.Engine, h []byte) string {
				a, b, ok := e.FindIndices(h)
				return fmt.Sprint(a, b, ok)
			}},
			{"Engine.IsMatch", func(re *coregex.Regex, e *meta.Engine, h []byte) string { return fmt.Sprint(e.IsMatch(h)) }},
			{"Engine.Count", func(re *coregex.Regex, e *meta.Engine, h []byte) string { return strconv.Itoa(e.Count(h, -1)) }},
			{"Engine.FindSubmatch", func(re *coregex.Regex, e *meta.Engine, h []byte) string {
				m := e.FindSubmatch(h)
				if m == nil {
					return "nil"
				}
				return fmt.Sprint(m.Start(), m.End(), m.NumCaptures())
			}},
			{"Engine.FindIndicesAt", func(re *coregex.Regex, e *meta.Engine, h []byte) string {
				a, b, ok := e.FindIndicesAt(h, len(h)/3)
				return fmt.Sprint(a, b, ok)
			}},
		}
		// the history is fixed up front so that a part of it can be replayed
		type stepT struct {
			cl callT
			h  []byte
		}
		steps := make([]stepT, 36)
		for k := range steps {
			steps[k] = stepT{calls[r.IntN(len(calls))], pool[r.IntN(len(pool))]}
		}
		genAfter0, genStep := -1, 0
		check := func(tag string, step int) {
			cl, h := steps[step].cl, steps[step].h
			got := obs.Call(func() string { return cl.f(V, E, h) })
			fre, fe := compile()
			want := obs.Call(func() string { return cl.f(fre, fe, h) })
			evals++
			if want != "nil" && want != "false" && want != "0" && want != "-1 -1 false" {
				w.Nontrivial(c.Pattern, cf.name, tag+strconv.Itoa(step))
			}
			if got != want {
				w.Fail(Failure{Idx: i, Sub: cf.name + "/" + tag + "step" + strconv.Itoa(step), API: cl.name, Got: got, Want: want, Pattern: c.Pattern, Haystack: strconv.Quote(string(h)), Strategy: E.Strategy().String(), Region: c.Region.String(), Family: c.Family, Note: "result after history differs from a fresh value"})
			}
			if step%6 == 5 {
				again := obs.Call(func() string { return cl.f(V, E, h) })
				evals++
				if again != got {
					w.Fail(Failure{Idx: i, Sub: cf.name + "/" + tag + "step" + strconv.Itoa(step), API: cl.name + "/repeat", Got: again, Want: got, Pattern: c.Pattern, Haystack: strconv.Quote(string(h)), Strategy: E.Strategy().String(), Region: c.Region.String(), Note: "repeating the call changed the result"})
				}
			}
		}
		for step := 0; step < 36; step++ {
			if step%9 == 8 {
				runtime.GC()
				w.Count("event:gc-in-history", 1)
			}
			if step == 17 && i%8 == 0 {
				// Epoch wrap: cheap calls until the 16-bit generation of the parked backtracker state is back
				// at the value it had after the first step that used it (read through the verif hook), then the steps from there to 16 are replayed:
				// every replayed search runs under the same generation number as its first execution, while
				// the marks of that first execution are still in the visited table unless a wrap cleared them.
				short := pool[0]
				for _, h := range pool {
					if len(h) > 0 && (len(short) == 0 || len(h) < len(short)) {
						short = h
					}
				}
				reached := false
				if genAfter0 > 0 {
					obs.Call(func() string {
						genStart, moved := -1, false
						for k := 0; k < 140000; k++ {
							if k%2 == 0 {
								V.Match(short)
							} else {
								V.FindSubmatchIndex(short)
							}
							sz, ok := V.VerifEngine().VerifStateSizes()
							if ok && sz.Generation == genAfter0 {
								reached = true
								break
							}
							if ok && genStart < 0 {
								genStart = sz.Generation
							}
							if ok && sz.Generation != genStart {
								moved = true
							}
							if k == 400 && !moved {
								break // these calls do not use the backtracker state: the counter will never wrap
							}
						}
						return ""
					})
				}
				if reached {
					w.Count("event:generation-wrap-reached(replay of steps 1-16)", 1)
					for k := genStep + 1; k <= 16; k++ {
						check("wrap-replay-", k)
					}
				} else {
					w.Count("event:generation-wrap-not-applicable(no backtracker state in use)", 1)
				}
			}
			check("", step)
			if genAfter0 <= 0 && step < 12 {
				if sz, ok := V.VerifEngine().VerifStateSizes(); ok && sz.Generation > 0 {
					genAfter0, genStep = sz.Generation, step
				}
			}
		}
		st := E.Stats()
		w.Count("engine:NFASearches", int(st.NFASearches))
		w.Count("engine:DFASearches", int(st.DFASearches))
		w.Count("engine:DFACacheFull", int(st.DFACacheFull))
		w.Eval(evals)
	}
	w.Sample(map[string]any{"i": c.Index, "pattern": c.Pattern, "history_calls": 36, "configs": len(cfgs), "pool_haystacks": len(pool)})
}
