package main

import (
	"fmt"
	"os"
	"regexp"
	"runtime"
	"sort"
	"strconv"
	"strings"
	"sync"
	"sync/atomic"

	"github.com/coregx/coregex"
	"github.com/coregx/coregex/meta"
	"github.com/coregx/coregex/nfa"

	"verif/gen"
	"verif/obs"
)

func init() {
	register(&Prop{ID: "C06", Witness: true, N: 6000, Quick: 60, QuickFixed: uint64(5 + len(gen.Exemplars) + 4), Build: "race", Workers: 8, StallSec: 600,
		Assume: []string{"the Go race detector (-race) observes unsynchronised conflicting accesses of the executions driven here; reports are read from its log per case, deduplicated by the pair of innermost coregex functions and the API entry points", "the sequential result of each (API, haystack) on the same value is the specification of the concurrent call"},
		Rule:   "case = one pattern G(D,i) (exemplars of every strategy and mutants) compiled once; 12 (API, haystack) calls are first executed alone (sequential specification), then G in {2, 8, 32} goroutines released by a barrier execute seeded shuffles of those calls on the ONE shared Regex (same and different haystacks, ASCII and non-ASCII, runtime.GC() interleaved); every concurrent result must equal its sequential result and the race log must stay empty; one evaluation = one concurrent call; distinct_nontrivial = distinct (pattern, API pair) combinations that were in flight at the same time on one value (in-flight counter)",
		Pre: func(p *Prop) {
			d := fmt.Sprintf("%s/work/race/%d", verifDir, os.Getpid())
			os.MkdirAll(d, 0o755)
			p.Env = []string{"GORACE=halt_on_error=0 history_size=3 log_path=" + d + "/c06"}
		},
		Post:  func(p *Prop) { os.RemoveAll(fmt.Sprintf("%s/work/race/%d", verifDir, os.Getpid())) },
		Known: knownC06,
		Run:   runC06})
}

// knownC06: no race on the current tree is excused (the shared-PikeVM races were repaired); kept as the single place where a call-site-identified finding would be recognised.
var c06OversizePatterns = []string{`^(?:\pL+ )+\d`, `^(\pL|\d)+$`, `^(.+)-(\pL+)$`, `(\pL+)\s(\pL+)`, `((\pL{2})+)\d`}

// c06ExtraPatterns: strategies that no exemplar of the generator selects: Fat Teddy with its small-haystack
// Aho-Corasick fallback (33-64 literals), the Aho-Corasick engine (> 64 substring-free literals), many short literals.
func c06ExtraPatterns() []string {
	return []string{
		gen.ManyLiterals(gen.Rng("C06x", 1), 40, false),
		gen.ManyLiterals(gen.Rng("C06x", 2), 70, false),
		gen.ManyLiterals(gen.Rng("C06x", 3), 48, true),
		gen.ManyLiterals(gen.Rng("C06x", 4), 12, false),
	}
}

func knownC06(f *Failure) string { return "" }

type c06call struct {
	name string
	f    func(re *coregex.Regex, h []byte) string
	h    []byte
}

func raceLogPath() string {
	g := os.Getenv("GORACE")
	if k := strings.Index(g, "log_path="); k >= 0 {
		return strings.Fields(g[k+len("log_path="):])[0] + "." + strconv.Itoa(os.Getpid())
	}
	return ""
}

func runC06(w *W, i uint64) {
	c := gen.D(i)
	forceOversize := false
	if i < uint64(len(c06OversizePatterns)) {
		// fixed part of every run: backtracker-strategy patterns with large UTF-8 automata, whose capacity limit
		// (32M / states) is a few KB, searched on haystacks just above that limit
		c.Pattern = c06OversizePatterns[i]
		re1, _ := gen.Valid(c.Pattern)
		c.Haystacks = gen.Haystacks(gen.Rng("C06o", i), re1, gen.ASCII, 6)
		c.Region = gen.ASCII
		forceOversize = true
	}
	exemplarCase := false
	if k := int(i) - len(c06OversizePatterns); k >= 0 && k < len(gen.Exemplars)+len(c06ExtraPatterns()) {
		exemplarCase = true
		// fixed part of every run: every strategy exemplar itself (not a mutant), with the adversarial families below
		if k < len(gen.Exemplars) {
			c.Pattern = gen.Exemplars[k]
		} else {
			c.Pattern = c06ExtraPatterns()[k-len(gen.Exemplars)]
		}
		if re1, ok := gen.Valid(c.Pattern); ok {
			c.Haystacks = gen.Haystacks(gen.Rng("C06e", i), re1, gen.ASCII, 6)
			c.Region = gen.ASCII
		}
	}
	if _, err := regexp.Compile(c.Pattern); err != nil {
		return
	}
	re, err := coregex.Compile(c.Pattern)
	if err != nil {
		return
	}
	if i%2 == 1 {
		// every second case runs under a 2-state DFA cache: the lazy DFA gives up almost at once and the
		// NFA fallback paths carry the load
		cfg := meta.DefaultConfig()
		cfg.MaxDFAStates = 2
		if r2, err := coregex.CompileWithConfig(c.Pattern, cfg); err == nil {
			re = r2
			w.Count("event:tiny-dfa-cache-config", 1)
		}
	}
	caseStats(w, &c)
	r := gen.Rng("C06", i)
	apis := []struct {
		name string
		f    func(re *coregex.Regex, h []byte) string
	}{
		{"Match", func(re *coregex.Regex, h []byte) string { return fmt.Sprint(re.Match(h)) }},
		{"MatchString", func(re *coregex.Regex, h []byte) string { return fmt.Sprint(re.MatchString(string(h))) }},
		{"FindIndex", func(re *coregex.Regex, h []byte) string { return obs.Ints(re.FindIndex(h)) }},
		{"Find", func(re *coregex.Regex, h []byte) string { return obs.Bytes(re.Find(h)) }},
		{"FindSubmatchIndex", func(re *coregex.Regex, h []byte) string { return obs.Ints(re.FindSubmatchIndex(h)) }},
		{"FindAllIndex", func(re *coregex.Regex, h []byte) string { return obs.Ints2(re.FindAllIndex(h, -1)) }},
		{"FindAllSubmatchIndex", func(re *coregex.Regex, h []byte) string { return obs.Ints2(re.FindAllSubmatchIndex(h, 4)) }},
		{"Count", func(re *coregex.Regex, h []byte) string { return strconv.Itoa(re.Count(h, -1)) }},
		{"AllIndex", func(re *coregex.Regex, h []byte) string {
			n := 0
			for range re.AllIndex(h) {
				n++
			}
			return strconv.Itoa(n)
		}},
		{"AppendAllIndex", func(re *coregex.Regex, h []byte) string { return fmt.Sprint(re.AppendAllIndex(nil, h, -1)) }},
		{"ReplaceAll", func(re *coregex.Regex, h []byte) string { return obs.Content(re.ReplaceAll(h, []byte("<$0>"))) }},
		{"ReplaceAllLiteralString", func(re *coregex.Regex, h []byte) string { return re.ReplaceAllLiteralString(string(h), "-") }},
		{"Split", func(re *coregex.Regex, h []byte) string { return obs.Strs(re.Split(string(h), -1)) }},
		{"FindReaderIndex", func(re *coregex.Regex, h []byte) string { return obs.Ints(re.FindReaderIndex(obs.Reader(h))) }},
	}
	// haystacks: the case's own (mixed shapes) plus a long one and a non-ASCII one
	re0, _ := gen.Valid(c.Pattern)
	hs := append([][]byte(nil), c.Haystacks...)
	long := gen.Haystacks(r, re0, gen.ASCII, 1)[0]
	// under -race the NFA simulation costs ~1 µs per (state x byte) and the shared simulator serialises the
	// goroutines: keep states x bytes bounded so that a case stays far below the watchdog
	longLen := 3000
	if n0, err := nfa.NewDefaultCompiler().Compile(c.Pattern); err == nil && n0.States() > 300 {
		longLen = max(200, 900_000/n0.States())
		w.Count("event:long-haystack-shortened-for-large-nfa", 1)
	}
	if re0 != nil && canBeEmpty(re0) {
		// enumerating APIs restart the search at every position of a nullable pattern: quadratic in the haystack
		longLen = min(longLen, 300)
	}
	for len(long) < longLen {
		long = append(long, long...)
		long = append(long, ' ')
		if len(long) == 1 {
			long = append(long, "ab "...)
		}
	}
	hs = append(hs, long, gen.Haystacks(r, re0, gen.UTF8, 1)[0])
	// adversarial families of C05 (many false candidates, near matches): they drive the anti-quadratic and
	// cache-full FALLBACK paths, which are the ones that reach engine-level shared simulators
	advLen := min(longLen, 700)
	for _, fam := range []string{"near-match", "literal-repeated", "sample-repeated", "sample-per-line", "filler-literal"} {
		hs = append(hs, c05Hay(fam, r, re0, gen.ASCII)(advLen))
	}
	var calls []c06call
	// beyond the bounded backtracker's capacity (states x length > 32M entries) the engine-level PikeVM or the
	// bidirectional DFA take over: one such haystack for every 12th backtracker-strategy case (costly under -race)
	if n0, err := nfa.NewDefaultCompiler().Compile(c.Pattern); err == nil && (forceOversize || i%12 == 5) && strategyOf(c.Pattern) == "UseBoundedBacktracker" {
		limit := (32<<20)/n0.States() + 64
		if limit <= 400_000 {
			big := c05Hay("random-walk", r, re0, gen.ASCII)(limit)
			for _, a := range apis[:4] {
				calls = append(calls, c06call{a.name + "(oversize)", a.f, big})
			}
			w.Count("event:oversize-haystack-for-backtracker", 1)
		}
	}
	if exemplarCase {
		// systematic: every haystack of the pool with one API of each dispatch table (boolean, first match,
		// captures, enumeration): the per-strategy code of the four tables is separate, and so are their fallbacks
		groups := [][]int{{0, 1}, {2, 3, 13}, {4}, {5, 6, 7, 8, 9, 10, 11, 12}}
		for _, h := range hs {
			for _, g := range groups {
				a := apis[g[r.IntN(len(g))]]
				calls = append(calls, c06call{a.name, a.f, h})
			}
		}
	} else {
		for k := 0; k < 12; k++ {
			a := apis[r.IntN(len(apis))]
			calls = append(calls, c06call{a.name, a.f, hs[r.IntN(len(hs))]})
		}
	}
	// sequential specification
	want := make([]string, len(calls))
	for k, cl := range calls {
		want[k] = obs.Call(func() string { return cl.f(re, cl.h) })
	}
	logPath := raceLogPath()
	if logPath == "" {
		w.Inconclusive("GORACE log_path is not set: race reports cannot be attributed")
		return
	}
	sizeBefore := fileSize(logPath)
	var inflight [64]atomic.Int32 // per API index (hashed) in-flight counters
	overlaps := map[string]bool{}
	var omu sync.Mutex
	evals := 0
	Gs := []int{2, 8, 32}
	if exemplarCase {
		Gs = []int{4, 16}
	}
	if forceOversize || (len(calls) > 12 && !exemplarCase) {
		Gs = []int{2, 4, 6} // oversize haystacks: seconds per call under -race
	}
	for _, G := range Gs {
		var wg sync.WaitGroup
		start := make(chan struct{})
		var mism sync.Map
		for g := 0; g < G; g++ {
			order := r.Perm(len(calls))
			if forceOversize || (len(calls) > 12 && !exemplarCase) {
				// the oversize calls come first in every goroutine: all of them enter the slow fallback path
				// together right after the barrier (calls[0:4] are the oversize ones)
				sort.SliceStable(order, func(a, b int) bool { return order[a] < 4 && order[b] >= 4 })
			}
			wg.Add(1)
			go func(g int, order []int) {
				defer wg.Done()
				<-start
				for n, k := range order {
					cl := calls[k]
					slot := k % len(inflight)
					inflight[slot].Add(1)
					// record which other calls are in flight right now
					for o := range inflight {
						if inflight[o].Load() > 0 && o != slot {
							key := cl.name + "||" + calls[o%len(calls)].name
							omu.Lock()
							overlaps[key] = true
							omu.Unlock()
						}
					}
					got := obs.Call(func() string { return cl.f(re, cl.h) })
					inflight[slot].Add(-1)
					if got != want[k] {
						mism.Store(k, got)
					}
					if n%5 == 4 && g == 0 {
						runtime.GC() // empties sync.Pool: the slow acquisition path runs under load
					}
				}
			}(g, order)
			evals += len(calls)
		}
		close(start)
		wg.Wait()
		mism.Range(func(key, val any) bool {
			k := key.(int)
			w.Fail(Failure{Idx: i, Sub: fmt.Sprintf("G=%d", G), API: calls[k].name, Got: val.(string), Want: want[k], Pattern: c.Pattern, Haystack: strconv.Quote(string(calls[k].h)), Strategy: strategyOf(c.Pattern), Region: c.Region.String(), Note: "concurrent result differs from the sequential result of the same call"})
			return true
		})
	}
	w.Eval(evals)
	for k := range overlaps {
		w.Nontrivial(c.Pattern, k)
	}
	w.Count("event:distinct-api-overlaps", len(overlaps))
	// race reports written during this case
	if sizeAfter := fileSize(logPath); sizeAfter > sizeBefore {
		data := readFrom(logPath, sizeBefore)
		keys := raceKeys(data)
		w.Count("event:race-reports", strings.Count(data, "WARNING: DATA RACE"))
		ks := make([]string, 0, len(keys))
		for k := range keys {
			ks = append(ks, k)
		}
		sort.Strings(ks)
		for _, k := range ks {
			w.Fail(Failure{Idx: i, Sub: "race", API: "RACE", Got: k, Want: "no data race", Pattern: c.Pattern, Strategy: strategyOf(c.Pattern), Note: clip(keys[k], 1800)})
		}
	}
	w.Sample(map[string]any{"i": c.Index, "pattern": c.Pattern, "calls": len(calls), "goroutine_counts": Gs, "api_overlaps_observed": len(overlaps)})
}

func fileSize(p string) int64 {
	st, err := os.Stat(p)
	if err != nil {
		return 0
	}
	return st.Size()
}

func readFrom(p string, off int64) string {
	f, err := os.Open(p)
	if err != nil {
		return ""
	}
	defer f.Close()
	f.Seek(off, 0)
	b := make([]byte, 4<<20)
	n, _ := f.Read(b)
	return string(b[:n])
}

// raceKeys reduces each report to "<innermost coregex frame of access 1> <-> <innermost coregex frame of access 2> via <outermost coregex frames>",
// with line numbers stripped; returns key -> first report text.
func raceKeys(log string) map[string]string {
	out := map[string]string{}
	for _, rep := range strings.Split(log, "WARNING: DATA RACE")[1:] {
		secs := strings.Split(rep, "\n\n")
		var tops, entries []string
		for _, sec := range secs {
			head := strings.TrimSpace(sec)
			if !(strings.HasPrefix(head, "Read at") || strings.HasPrefix(head, "Write at") || strings.HasPrefix(head, "Previous read at") || strings.HasPrefix(head, "Previous write at")) {
				continue
			}
			var frames []string
			for _, line := range strings.Split(sec, "\n") {
				line = strings.TrimSpace(line)
				if strings.HasPrefix(line, "github.com/coregx/coregex") {
					fn := line
					if p := strings.Index(fn, "("); p > 0 && strings.HasSuffix(fn, ")") {
						// keep receiver form, drop trailing "()"
						fn = strings.TrimSuffix(fn, "()")
					}
					frames = append(frames, strings.TrimPrefix(fn, "github.com/coregx/coregex/"))
				}
			}
			if len(frames) > 0 {
				tops = append(tops, frames[0])
				entries = append(entries, frames[len(frames)-1])
			}
		}
		if len(tops) == 0 {
			tops = []string{"(no coregex frame)"}
		}
		sort.Strings(tops)
		sort.Strings(entries)
		key := strings.Join(tops, " <-> ") + " via " + strings.Join(entries, " & ")
		if _, ok := out[key]; !ok {
			out[key] = "WARNING: DATA RACE" + rep
		}
	}
	return out
}
