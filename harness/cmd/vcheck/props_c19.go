package main

import (
	"fmt"
	"regexp"
	"regexp/syntax"
	"sort"
	"strconv"

	"github.com/coregx/coregex/meta"
	"github.com/coregx/coregex/nfa"

	"verif/gen"
	"verif/obs"
)

func init() {
	register(&Prop{ID: "C19", Witness: true, N: 100000, Quick: 6000,
		Assume: []string{"reference = stdlib regexp; offsets at>0 through slicing for patterns without look-around, at=0 otherwise", "each fast path is judged only on patterns its own applicability test accepts (IsSimpleCharClassPlus, IsCompositeCharClassPattern, IsCompositeSequenceDFAPattern, IsBranchDispatchPattern, DetectAnchoredLiteral, ExtractFirstBytes) or, for the meta-level searchers, on patterns for which SelectStrategy returns that strategy"},
		Rule:   "cases G(D,i) (exemplars of every strategy and their whitelist-boundary mutants), ASCII and valid-UTF-8 regions; direct searchers are built through their exported constructors and asked Search/SearchAt/IsMatch/FindAllIndices/Count at every offset <= 12; strategy-selected searchers are driven through meta.Engine.FindIndicesAt/IsMatch/Count at every offset; ExtractFirstBytes must contain the first byte of every reference match; one evaluation = one compared call; distinct_nontrivial = distinct (fast path, pattern, haystack, offset) with a reference match",
		Triage: triageC19,
		Run:    runC19})
}

func triageC19(f *Failure) string {
	h := hayOf(f)
	for _, c := range h {
		if c >= 0x80 {
			return "KF-C19-02"
		}
	}
	if features(f.Pattern).look {
		return "KF-C19-03"
	}
	return ""
}

func runC19(w *W, i uint64) {
	c := gen.D(i)
	if c.Region == gen.Illformed {
		w.Count("event:skipped-illformed-region", 1)
		return
	}
	re, err := syntax.Parse(c.Pattern, syntax.Perl)
	if err != nil {
		return
	}
	std, err := regexp.Compile(c.Pattern)
	if err != nil {
		return
	}
	stdAnch, _ := regexp.Compile(`\A(?:` + c.Pattern + `)`)
	look := hasLook(re)
	fails := map[string]*c14agg{}
	evals := 0
	cmp := func(path, op string, h []byte, at int, got, want string) {
		evals++
		if got == want {
			return
		}
		k := path + "\t" + op
		a := fails[k]
		if a == nil {
			a = &c14agg{}
			fails[k] = a
		}
		a.n++
		if a.first == "" {
			a.first = fmt.Sprintf("h=%s at=%d got=%s want=%s", strconv.Quote(string(h)), at, got, want)
		}
	}
	span := func(s, e int, ok bool) string {
		if !ok {
			return "nil"
		}
		return fmt.Sprint([]int{s, e})
	}
	refAt := func(h []byte, at int) (string, bool) {
		loc := std.FindIndex(h[at:])
		if loc == nil {
			return "nil", false
		}
		return fmt.Sprint([]int{loc[0] + at, loc[1] + at}), true
	}
	offsets := func(h []byte) []int {
		if look {
			return []int{0}
		}
		var o []int
		for a := 0; a <= len(h) && a <= 12; a++ {
			o = append(o, a)
		}
		if len(h) > 12 {
			o = append(o, len(h)/2, len(h)-1, len(h))
		}
		return o
	}
	C := obs.Call
	type searcher struct {
		name     string
		searchAt func(h []byte, at int) (int, int, bool)
		isMatch  func(h []byte) bool
	}
	var ss []searcher
	if nfa.IsSimpleCharClassPlus(re) {
		if rg := nfa.ExtractCharClassRanges(re); rg != nil {
			s := nfa.NewCharClassSearcher(rg, 1)
			ss = append(ss, searcher{"CharClassSearcher", s.SearchAt, s.IsMatch})
			for _, h := range c.Haystacks {
				all := std.FindAllIndex(h, -1)
				cmp("CharClassSearcher", "FindAllIndices", h, 0, C(func() string {
					var a [][]int
					for _, m := range s.FindAllIndices(h, nil) {
						a = append(a, []int{m[0], m[1]})
					}
					return obs.Ints2(a)
				}), obs.Ints2(all))
				cmp("CharClassSearcher", "Count", h, 0, C(func() string { return strconv.Itoa(s.Count(h)) }), strconv.Itoa(len(all)))
			}
		}
	}
	if nfa.IsCompositeCharClassPattern(re) {
		if s := nfa.NewCompositeSearcher(re); s != nil {
			ss = append(ss, searcher{"CompositeSearcher", s.SearchAt, s.IsMatch})
		} else {
			w.Count("event:composite-constructor-declined", 1)
		}
	}
	if nfa.IsCompositeSequenceDFAPattern(re) {
		if s := nfa.NewCompositeSequenceDFA(re); s != nil {
			ss = append(ss, searcher{"CompositeSequenceDFA", s.SearchAt, s.IsMatch})
		}
	}
	for _, s := range ss {
		w.Count("path:"+s.name, 1)
		for _, h := range c.Haystacks {
			for _, at := range offsets(h) {
				want, ok := refAt(h, at)
				if ok {
					w.Nontrivial(s.name, c.Pattern, string(h), strconv.Itoa(at))
				}
				cmp(s.name, "SearchAt", h, at, C(func() string { return span(s.searchAt(h, at)) }), want)
			}
			cmp(s.name, "IsMatch", h, 0, C(func() string { return fmt.Sprint(s.isMatch(h)) }), fmt.Sprint(std.Match(h)))
		}
	}
	if nfa.IsBranchDispatchPattern(re) {
		// the dispatcher is built from the alternation that follows the anchor
		var alt *syntax.Regexp
		if re.Op == syntax.OpConcat && len(re.Sub) == 2 {
			alt = re.Sub[1]
		}
		if alt != nil {
			if d := nfa.NewBranchDispatcher(alt); d != nil {
				w.Count("path:BranchDispatcher", 1)
				for _, h := range c.Haystacks {
					want := "nil"
					if l := stdAnch.FindIndex(h); l != nil {
						want = fmt.Sprint(l)
						w.Nontrivial("BranchDispatcher", c.Pattern, string(h))
					}
					cmp("BranchDispatcher", "Search", h, 0, C(func() string { return span(d.Search(h)) }), want)
					cmp("BranchDispatcher", "IsMatch", h, 0, C(func() string { return fmt.Sprint(d.IsMatch(h)) }), fmt.Sprint(want != "nil"))
				}
			}
		}
	}
	if info := meta.DetectAnchoredLiteral(re); info != nil {
		w.Count("path:AnchoredLiteral", 1)
		for _, h := range c.Haystacks {
			want := std.Match(h)
			if want {
				w.Nontrivial("AnchoredLiteral", c.Pattern, string(h))
			}
			cmp("AnchoredLiteral", "MatchAnchoredLiteral", h, 0, C(func() string { return fmt.Sprint(meta.MatchAnchoredLiteral(h, info)) }), fmt.Sprint(want))
		}
	}
	if fb := nfa.ExtractFirstBytes(re); fb != nil && fb.IsComplete() {
		w.Count("path:FirstBytes", 1)
		for _, h := range c.Haystacks {
			for _, m := range std.FindAllIndex(h, 8) {
				if m[1] > m[0] {
					cmp("FirstBytes", "Contains(first byte of a match)", h, m[0], fmt.Sprint(fb.Contains(h[m[0]])), "true")
				}
			}
		}
	}
	// strategy-selected searchers end to end at every offset
	if eng, err := meta.Compile(c.Pattern); err == nil {
		st := eng.Strategy().String()
		w.Count("strategy:"+st, 1)
		for _, h := range c.Haystacks {
			for _, at := range offsets(h) {
				want, ok := refAt(h, at)
				if ok {
					w.Nontrivial(st, c.Pattern, string(h), strconv.Itoa(at))
				}
				cmp("Engine["+st+"]", "FindIndicesAt", h, at, C(func() string { return span(eng.FindIndicesAt(h, at)) }), want)
			}
			cmp("Engine["+st+"]", "IsMatch", h, 0, C(func() string { return fmt.Sprint(eng.IsMatch(h)) }), fmt.Sprint(std.Match(h)))
			cmp("Engine["+st+"]", "Count", h, 0, C(func() string { return strconv.Itoa(eng.Count(h, -1)) }), strconv.Itoa(len(std.FindAllIndex(h, -1))))
		}
	}
	w.Eval(evals)
	w.Sample(map[string]any{"i": c.Index, "pattern": c.Pattern, "direct_searchers": len(ss), "calls": evals})
	keys := make([]string, 0, len(fails))
	for k := range fails {
		keys = append(keys, k)
	}
	sort.Strings(keys)
	for _, k := range keys {
		a := fails[k]
		var path, op string
		for q := 0; q < len(k); q++ {
			if k[q] == '\t' {
				path, op = k[:q], k[q+1:]
			}
		}
		h := ""
		if j := indexOf(a.first, " at="); j > 2 {
			h = a.first[2:j]
		}
		w.Fail(Failure{Idx: i, Sub: path, API: op, Got: fmt.Sprintf("%d calls differ; first: %s", a.n, a.first), Want: "reference", Pattern: c.Pattern, Haystack: h, Region: c.Region.String(), Family: c.Family, Strategy: strategyOf(c.Pattern)})
	}
}

func indexOf(s, sub string) int {
	for i := 0; i+len(sub) <= len(s); i++ {
		if s[i:i+len(sub)] == sub {
			return i
		}
	}
	return -1
}
