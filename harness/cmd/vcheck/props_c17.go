package main

import (
	"bytes"
	"fmt"
	"regexp"
	"regexp/syntax"
	"strconv"
	"strings"

	"github.com/coregx/coregex/literal"

	"verif/gen"
)

func init() {
	register(&Prop{ID: "C17", Witness: true, N: 60000, Quick: 5000,
		Assume: []string{"matches are drawn from the pattern's language two ways: random derivations of the AST validated by stdlib \\A(?:p)\\z, and match texts stdlib finds in generated haystacks", "completeness (a complete literal is an entire match, nothing longer preferred) is judged only for patterns without look-around, whose handling the extractor leaves to its caller"},
		Rule:   "case = pattern G(D,i) × 6 extractor limit settings from the grid MaxLiterals{1,2,3,8,64,256} × MaxLiteralLen{1,2,4,64} × MaxClassSize{1,3,10} × CrossProductLimit{1,10,250}; for every drawn match m: some prefix literal is a prefix of m, some suffix literal a suffix, some inner literal a substring (unless the sequence is empty or partial), also after Minimize/Dedup/KeepFirstBytes and for LongestCommonPrefix/Suffix; complete literals are full matches and stay the leftmost-first match under continuations; one evaluation = one (match, sequence) containment test; distinct_nontrivial = distinct (pattern, limits, match) triples checked against a non-empty sequence",
		Triage: func(f *Failure) string {
			// KF-C17-01: a complete prefix literal that loses against an earlier, longer alternative
			if f.API == "ExtractPrefixes/complete-context" && strings.Contains(f.Got, "followed by") {
				return "KF-C17-01"
			}
			return ""
		},
		Run: runC17})
}

var c17Grid = func() []literal.ExtractorConfig {
	var g []literal.ExtractorConfig
	for _, ml := range []int{1, 2, 3, 8, 64, 256} {
		for _, ll := range []int{1, 2, 4, 64} {
			for _, cs := range []int{1, 3, 10} {
				for _, cp := range []int{1, 10, 250} {
					g = append(g, literal.ExtractorConfig{MaxLiterals: ml, MaxLiteralLen: ll, MaxClassSize: cs, CrossProductLimit: cp})
				}
			}
		}
	}
	return g
}()

func hasLook(re *syntax.Regexp) bool {
	switch re.Op {
	case syntax.OpBeginLine, syntax.OpEndLine, syntax.OpBeginText, syntax.OpEndText, syntax.OpWordBoundary, syntax.OpNoWordBoundary:
		return true
	}
	for _, s := range re.Sub {
		if hasLook(s) {
			return true
		}
	}
	return false
}

func runC17(w *W, i uint64) {
	c := gen.D(i)
	re, err := syntax.Parse(c.Pattern, syntax.Perl)
	if err != nil {
		return
	}
	full, err := regexp.Compile(`\A(?:` + c.Pattern + `)\z`)
	if err != nil {
		return
	}
	std := regexp.MustCompile(c.Pattern)
	look := hasLook(re)
	w.Count("region:"+c.Region.String(), 1)
	// draw matches
	r := gen.Rng("C17", i)
	seen := map[string]bool{}
	var ms [][]byte
	for k := 0; k < 30 && len(ms) < 24; k++ {
		m := gen.Sample(r, re, c.Region)
		if !seen[string(m)] && full.Match(m) {
			seen[string(m)] = true
			ms = append(ms, m)
			w.Count("event:match-from-derivation", 1)
		}
	}
	for _, h := range c.Haystacks {
		for _, loc := range std.FindAllIndex(h, 6) {
			m := h[loc[0]:loc[1]]
			if !seen[string(m)] {
				seen[string(m)] = true
				ms = append(ms, m)
				w.Count("event:match-from-haystack", 1)
			}
		}
	}
	if len(ms) == 0 {
		w.Count("event:no-match-drawn", 1)
		return
	}
	evals := 0
	fail := func(cfgIdx int, api, got string, m []byte) {
		w.Fail(Failure{Idx: i, Sub: "cfg" + strconv.Itoa(cfgIdx), API: api, Got: got, Want: "a literal of the sequence is contained in every match", Pattern: c.Pattern, Haystack: strconv.Quote(string(m)), Region: c.Region.String(), Family: c.Family})
	}
	for k := 0; k < 6; k++ {
		ci := int((i*7 + uint64(k)*37) % uint64(len(c17Grid)))
		if k == 0 {
			ci = len(c17Grid) - 1 - 2*3*3 // the limits the meta engine uses: 64/64/10/250 neighbourhood
		}
		cfg := c17Grid[ci]
		ex := literal.New(cfg)
		type seqCheck struct {
			name string
			seq  *literal.Seq
			ok   func(m, l []byte) bool
		}
		var checks []seqCheck
		addSeq := func(name string, f func() *literal.Seq, ok func(m, l []byte) bool) {
			var s *literal.Seq
			func() {
				defer func() {
					if rec := recover(); rec != nil {
						fail(ci, name, "PANIC: "+fmt.Sprint(rec), nil)
					}
				}()
				s = f()
			}()
			if s == nil || s.IsEmpty() {
				w.Count("seq-empty:"+name, 1)
				return
			}
			if s.IsPartialCoverage() {
				w.Count("seq-partial:"+name, 1)
				return
			}
			w.Count("seq-nonempty:"+name, 1)
			checks = append(checks, seqCheck{name, s, ok})
		}
		pre := func(m, l []byte) bool { return bytes.HasPrefix(m, l) }
		suf := func(m, l []byte) bool { return bytes.HasSuffix(m, l) }
		inn := func(m, l []byte) bool { return bytes.Contains(m, l) }
		var P, S *literal.Seq
		addSeq("ExtractPrefixes", func() *literal.Seq { P = ex.ExtractPrefixes(re); return P }, pre)
		addSeq("ExtractSuffixes", func() *literal.Seq { S = ex.ExtractSuffixes(re); return S }, suf)
		addSeq("ExtractInner", func() *literal.Seq { return ex.ExtractInner(re) }, inn)
		addSeq("ExtractInnerForReverseSearch", func() *literal.Seq {
			info := ex.ExtractInnerForReverseSearch(re)
			if info == nil {
				return nil
			}
			return info.Literals
		}, inn)
		if P != nil && !P.IsEmpty() && !P.IsPartialCoverage() {
			addSeq("Prefixes.Minimize", func() *literal.Seq { q := P.Clone(); q.Minimize(); return q }, pre)
			addSeq("Prefixes.Dedup", func() *literal.Seq { q := P.Clone(); q.Dedup(); return q }, pre)
			addSeq("Prefixes.KeepFirstBytes(2)", func() *literal.Seq { q := P.Clone(); q.KeepFirstBytes(2); return q }, pre)
			addSeq("Prefixes.LongestCommonPrefix", func() *literal.Seq {
				return literal.NewSeq(literal.NewLiteral(P.LongestCommonPrefix(), false))
			}, pre)
		}
		if S != nil && !S.IsEmpty() && !S.IsPartialCoverage() {
			addSeq("Suffixes.LongestCommonSuffix", func() *literal.Seq {
				return literal.NewSeq(literal.NewLiteral(S.LongestCommonSuffix(), false))
			}, suf)
		}
		for _, ck := range checks {
			for _, m := range ms {
				evals++
				w.Nontrivial(c.Pattern, strconv.Itoa(ci), string(m), ck.name)
				found := false
				for q := 0; q < ck.seq.Len(); q++ {
					if ck.ok(m, ck.seq.Get(q).Bytes) {
						found = true
						break
					}
				}
				if !found {
					fail(ci, ck.name, "no literal of "+seqQ(ck.seq)+" fits the match (limits "+fmt.Sprintf("%+v", cfg)+")", m)
					break
				}
			}
			// completeness
			if look || (ck.name != "ExtractPrefixes" && ck.name != "ExtractSuffixes" && ck.name != "ExtractInner") {
				continue
			}
			for q := 0; q < ck.seq.Len(); q++ {
				l := ck.seq.Get(q)
				if !l.Complete {
					continue
				}
				evals++
				w.Count("event:complete-literal-checked", 1)
				if !full.Match(l.Bytes) {
					fail(ci, ck.name+"/complete", "literal "+strconv.Quote(string(l.Bytes))+" is flagged complete but is not a match of the pattern (limits "+fmt.Sprintf("%+v", cfg)+")", l.Bytes)
					break
				}
				if ck.name == "ExtractPrefixes" {
					for _, x := range [][]byte{[]byte("a"), l.Bytes, []byte("é0"), ms[0]} {
						t := append(append([]byte(nil), l.Bytes...), x...)
						loc := std.FindIndex(t)
						evals++
						if loc == nil || loc[0] != 0 || loc[1] != len(l.Bytes) {
							// a longer match starting there is preferred: legitimate only if another literal of the sequence covers it
							covered := false
							if loc != nil && loc[0] == 0 {
								for q2 := 0; q2 < ck.seq.Len(); q2++ {
									o := ck.seq.Get(q2)
									if o.Complete && bytes.Equal(o.Bytes, t[:loc[1]]) {
										covered = true
									}
								}
							}
							if !covered {
								fail(ci, ck.name+"/complete-context", fmt.Sprintf("complete literal %q followed by %q: stdlib matches %v, not [0 %d] (limits %+v)", l.Bytes, x, loc, len(l.Bytes), cfg), t)
								break
							}
						}
					}
				}
			}
		}
	}
	w.Eval(evals)
	w.Sample(map[string]any{"i": i, "pattern": c.Pattern, "matches_drawn": len(ms), "first_match_q": strconv.Quote(string(ms[0]))})
}

func seqQ(s *literal.Seq) string {
	out := "["
	for q := 0; q < s.Len() && q < 8; q++ {
		l := s.Get(q)
		out += strconv.Quote(string(l.Bytes))
		if l.Complete {
			out += "!"
		}
		out += " "
	}
	if s.Len() > 8 {
		out += fmt.Sprintf("…(%d)", s.Len())
	}
	return out + "]"
}
