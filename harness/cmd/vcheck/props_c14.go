package main

import (
	"fmt"
	"regexp"
	"regexp/syntax"
	"sort"
	"strconv"
	"strings"

	"github.com/coregx/coregex/dfa/lazy"
	"github.com/coregx/coregex/dfa/onepass"
	"github.com/coregx/coregex/nfa"

	"verif/gen"
	"verif/obs"
)

func init() {
	register(&Prop{ID: "C14", Witness: true, N: 60000, Quick: 2500,
		Assume: []string{"reference = stdlib regexp on the same bytes; offsets at>0 are compared only for patterns without look-around (stdlib has no search-from-offset API that keeps look-behind context), where slicing the haystack is exact", "engines are built through their exported constructors; 'declined' is recognised only where documented: CanHandle()==false, onepass.Build error, lazy compile error"},
		Rule:   "cases G(D,i) (ASCII and valid-UTF-8 regions); for each pattern every engine is driven directly on the case's haystacks plus all strings of length <= 3 over three pattern-derived symbols, at every start offset (<= 12): PikeVM (Search, SearchAt, IsMatch, SearchWithCaptures(At), SearchWithSlotTable(At), SearchWithSlotTableCaptures(At), SearchWithCapturesInSpan, SearchBetween), BoundedBacktracker (fresh and reused state), lazy.DFA forward (Find, FindAt, SearchAt, SearchAtAnchored, IsMatch, IsMatchAt) and reverse (SearchReverse, IsMatchReverse) with one cache reused across all calls under 6 index-chosen capacity/clear-limit settings from {64,200,400,800,2Ki,64Ki,2Mi} × {0,1,5,1000} × DeterminizationLimit{10,1000}, onepass.DFA (Search, IsMatch); one evaluation = one engine call compared with the reference quantity; distinct_nontrivial = distinct (pattern, haystack, offset) triples with a reference match",
		Triage: triageC14,
		Run:    runC14})
}

type c14agg struct {
	n     int
	first string
}

func runC14(w *W, i uint64) {
	c := gen.D(i)
	if c.Region == gen.Illformed {
		// ill-formed input is the open finding KF-C15-01 (engines share the byte automata); C14 stays on well-formed text
		w.Count("event:skipped-illformed-region", 1)
		return
	}
	re, err := syntax.Parse(c.Pattern, syntax.Perl)
	if err != nil {
		return
	}
	std, err := regexp.Compile(c.Pattern)
	if err != nil {
		return
	}
	stdAnch, _ := regexp.Compile(`\A(?:` + c.Pattern + `)`)
	stdFull, _ := regexp.Compile(`\A(?:` + c.Pattern + `)\z`)
	stdEndAnch, _ := regexp.Compile(`(?:` + c.Pattern + `)\z`)
	look := hasLook(re)
	fwd, err := nfa.NewDefaultCompiler().CompileRegexp(re)
	if err != nil {
		w.Count("event:nfa-compile-declined", 1)
		return
	}
	w.Count("region:"+c.Region.String(), 1)
	fails := map[string]*c14agg{}
	evals := 0
	cmp := func(op, cfg string, h []byte, at int, got, want string) {
		evals++
		if got == want {
			return
		}
		k := op + "\t" + cfg
		a := fails[k]
		if a == nil {
			a = &c14agg{}
			fails[k] = a
		}
		a.n++
		if a.first == "" {
			a.first = fmt.Sprintf("h=%s at=%d got=%s want=%s", strconv.Quote(string(h)), at, got, want)
		}
	}
	span := func(s, e int, ok bool) string {
		if !ok {
			return "nil"
		}
		return fmt.Sprint([]int{s, e})
	}
	// haystacks: the case's plus short exhaustive ones
	hs := append([][]byte(nil), c.Haystacks...)
	alpha := gen.Alphabet(re, c.Region)
	if len(alpha) > 3 {
		r := gen.Rng("C14a", i)
		r.Shuffle(len(alpha), func(a, b int) { alpha[a], alpha[b] = alpha[b], alpha[a] })
		alpha = alpha[:3]
	}
	var rec func(prefix []byte, depth int)
	rec = func(prefix []byte, depth int) {
		hs = append(hs, append([]byte(nil), prefix...))
		if depth == 3 {
			return
		}
		for _, a := range alpha {
			rec(append(prefix, a...), depth+1)
		}
	}
	rec(nil, 0)

	// reference quantities
	type refT struct {
		span, end, anchEnd, caps string
		exists                   bool
		s, e                     int
	}
	ref := func(h []byte, at int) refT {
		var r refT
		loc := std.FindSubmatchIndex(h[at:])
		if loc == nil {
			r.span, r.end, r.caps = "nil", "-1", "nil"
		} else {
			for k := range loc {
				if loc[k] >= 0 {
					loc[k] += at
				}
			}
			r.exists, r.s, r.e = true, loc[0], loc[1]
			r.span, r.end, r.caps = fmt.Sprint(loc[:2]), strconv.Itoa(loc[1]), fmt.Sprint(loc)
		}
		r.anchEnd = "-1"
		if stdAnch != nil {
			if l := stdAnch.FindIndex(h[at:]); l != nil {
				r.anchEnd = strconv.Itoa(l[1] + at)
			}
		}
		return r
	}
	offsets := func(h []byte) []int {
		if look {
			return []int{0}
		}
		var o []int
		for a := 0; a <= len(h) && a <= 12; a++ {
			o = append(o, a)
		}
		if len(h) > 12 {
			o = append(o, len(h)-1, len(h))
		}
		return o
	}

	C := obs.Call
	// ---- PikeVM and backtracker
	vm := nfa.NewPikeVM(fwd)
	bt := nfa.NewBoundedBacktracker(fwd)
	btState := nfa.NewBacktrackerState()
	for _, h := range hs {
		for _, at := range offsets(h) {
			r := ref(h, at)
			if r.exists {
				w.Nontrivial(c.Pattern, string(h), strconv.Itoa(at))
			}
			cmp("PikeVM.SearchAt", "-", h, at, C(func() string { return span(vm.SearchAt(h, at)) }), r.span)
			cmp("PikeVM.SearchWithSlotTableAt(Find)", "-", h, at, C(func() string { return span(vm.SearchWithSlotTableAt(h, at, nfa.SearchModeFind)) }), r.span)
			cmp("PikeVM.SearchWithCapturesAt", "-", h, at, C(func() string { return capsOf(vm.SearchWithCapturesAt(h, at)) }), r.caps)
			cmp("PikeVM.SearchWithSlotTableCapturesAt", "-", h, at, C(func() string { return capsOf(vm.SearchWithSlotTableCapturesAt(h, at)) }), r.caps)
			if r.exists {
				cmp("PikeVM.SearchWithCapturesInSpan", "-", h, at, C(func() string { return capsOf(vm.SearchWithCapturesInSpan(h, r.s, r.e)) }), r.caps)
				cmp("PikeVM.SearchBetween", "-", h, at, C(func() string { return span(vm.SearchBetween(h, at, len(h))) }), betweenWant(r.span, at, len(h)))
			}
			if at == 0 {
				cmp("PikeVM.SearchAll", "-", h, at, C(func() string {
					var a [][]int
					for _, m := range vm.SearchAll(h) {
						a = append(a, []int{m.Start, m.End})
					}
					return obs.Ints2(a)
				}), obs.Ints2(std.FindAllIndex(h, -1)))
				cmp("PikeVM.Search", "-", h, at, C(func() string { return span(vm.Search(h)) }), r.span)
				cmp("PikeVM.IsMatch", "-", h, at, C(func() string { return fmt.Sprint(vm.IsMatch(h)) }), fmt.Sprint(r.exists))
				cmp("PikeVM.SearchWithCaptures", "-", h, at, C(func() string { return capsOf(vm.SearchWithCaptures(h)) }), r.caps)
			}
			if bt.CanHandle(len(h)) {
				cmp("Backtracker.SearchAtWithState(reused)", "-", h, at, C(func() string { return span(bt.SearchAtWithState(h, at, btState)) }), r.span)
				cmp("Backtracker.SearchAtWithState(fresh)", "-", h, at, C(func() string { return span(bt.SearchAtWithState(h, at, nfa.NewBacktrackerState())) }), r.span)
				if at == 0 {
					cmp("Backtracker.IsMatchWithState", "-", h, at, C(func() string { return fmt.Sprint(bt.IsMatchWithState(h, btState)) }), fmt.Sprint(r.exists))
					cmp("Backtracker.IsMatchAnchoredWithState", "-", h, at, C(func() string { return fmt.Sprint(bt.IsMatchAnchoredWithState(h, btState)) }), fmt.Sprint(r.anchEnd != "-1"))
				}
			} else {
				w.Count("event:backtracker-declined(CanHandle=false)", 1)
			}
		}
	}

	// ---- bounded backtracker beyond its capacity: the reference answer or an explicit decline is required;
	// the entry points have no way to decline, so a silent "no match" for a haystack that matches is reported
	if btS := nfa.NewBoundedBacktrackerSmall(fwd); btS.MaxInputSize() < 200_000 && len(hs) > 0 {
		base := hs[0]
		if m := std.FindIndex(base); m != nil {
			big := append(append([]byte(nil), base...), bytesOf('\n', btS.MaxInputSize()+10)...)
			if want := std.FindIndex(big); want != nil && !btS.CanHandle(len(big)) {
				st := nfa.NewBacktrackerState()
				cmp("Backtracker.SearchWithState(over capacity)", "-", base, 0, C(func() string { return span(btS.SearchWithState(big, st)) }), fmt.Sprint(want))
				cmp("Backtracker.IsMatchWithState(over capacity)", "-", base, 0, C(func() string { return fmt.Sprint(btS.IsMatchWithState(big, st)) }), "true")
			}
		}
	}

	// ---- lazy DFA forward / reverse under capacity grid
	caps := []int{64, 200, 400, 800, 2048, 64 << 10, 2 << 20}
	clears := []int{0, 1, 5, 1000}
	dls := []int{10, 1000}
	rev := nfa.ReverseAnchored(fwd)
	for k := 0; k < 6; k++ {
		ci := int((i*5 + uint64(k)*11) % uint64(len(caps)*len(clears)*len(dls)))
		cfg := lazy.DefaultConfig()
		cfg.CacheCapacityBytes = caps[ci%len(caps)]
		cfg.MaxCacheClears = clears[(ci/len(caps))%len(clears)]
		cfg.DeterminizationLimit = dls[ci/(len(caps)*len(clears))]
		cfg.UsePrefilter = false
		name := fmt.Sprintf("cap=%d clears=%d dl=%d", cfg.CacheCapacityBytes, cfg.MaxCacheClears, cfg.DeterminizationLimit)
		fcfg := cfg
		fcfg.BreakAtMatch = true
		d, err := lazy.CompileWithConfig(fwd, fcfg)
		if err != nil {
			w.Count("event:lazy-compile-declined", 1)
			continue
		}
		cache := d.NewCache()
		rcfg := cfg
		rcfg.BreakAtMatch = false
		var rd *lazy.DFA
		var rcache *lazy.DFACache
		if !look { // the reversed NFA carries no look-around: only judged on patterns without it
			if x, err := lazy.CompileWithConfig(rev, rcfg); err == nil {
				rd, rcache = x, x.NewCache()
			}
		}
		for _, h := range hs {
			for _, at := range offsets(h) {
				r := ref(h, at)
				cmp("lazy.SearchAt", name, h, at, C(func() string { return strconv.Itoa(d.SearchAt(cache, h, at)) }), r.end)
				cmp("lazy.FindAt", name, h, at, C(func() string { return strconv.Itoa(d.FindAt(cache, h, at)) }), r.end)
				cmp("lazy.SearchAtAnchored", name, h, at, C(func() string { return strconv.Itoa(d.SearchAtAnchored(cache, h, at)) }), r.anchEnd)
				cmp("lazy.IsMatchAt", name, h, at, C(func() string { return fmt.Sprint(d.IsMatchAt(cache, h, at)) }), fmt.Sprint(r.exists))
				if !look && stdEndAnch != nil && len(h) <= 64 {
					// earliest-match mode: the smallest e such that some match ends at e (first match state reached)
					earliest := -1
					for e := at; e <= len(h); e++ {
						if stdEndAnch.Match(h[at:e]) {
							earliest = e
							break
						}
					}
					cmp("lazy.SearchFirstAt", name, h, at, C(func() string { return strconv.Itoa(d.SearchFirstAt(cache, h, at)) }), strconv.Itoa(earliest))
				}
				if at == 0 {
					cmp("lazy.Find", name, h, at, C(func() string { return strconv.Itoa(d.Find(cache, h)) }), r.end)
					cmp("lazy.IsMatch", name, h, at, C(func() string { return fmt.Sprint(d.IsMatch(cache, h)) }), fmt.Sprint(r.exists))
				}
				if rd != nil && r.exists && r.e > at && stdFull != nil {
					// smallest s' in [at, e] such that h[s':e] is a full match
					want := -1
					for s := at; s <= r.e; s++ {
						if stdFull.Match(h[s:r.e]) {
							want = s
							break
						}
					}
					cmp("lazy.SearchReverse", name, h, at, C(func() string { return strconv.Itoa(rd.SearchReverse(rcache, h, at, r.e)) }), strconv.Itoa(want))
					cmp("lazy.IsMatchReverse", name, h, at, C(func() string { return fmt.Sprint(rd.IsMatchReverse(rcache, h, at, r.e)) }), fmt.Sprint(want >= 0))
				}
			}
		}
		w.Count("event:lazy-cache-clears", cache.ClearCount())
	}

	// ---- one-pass DFA
	if fwd.CaptureCount() > 1 {
		an, err := nfa.NewCompiler(nfa.CompilerConfig{UTF8: true, Anchored: true}).CompileRegexp(re)
		if err == nil {
			op, err := onepass.Build(an)
			if err != nil {
				w.Count("event:onepass-declined", 1)
			} else if !look { // look-around inside the pattern is not modelled by the one-pass DFA (its caller guards)
				w.Count("event:onepass-built", 1)
				oc := onepass.NewCache(op.NumCaptures())
				for _, h := range hs {
					want := "nil"
					if l := stdAnch.FindSubmatchIndex(h); l != nil {
						want = fmt.Sprint(l)
					}
					cmp("onepass.Search", "-", h, 0, C(func() string {
						s := op.Search(h, oc)
						if s == nil {
							return "nil"
						}
						return fmt.Sprint(s)
					}), want)
					cmp("onepass.IsMatch", "-", h, 0, C(func() string { return fmt.Sprint(op.IsMatch(h)) }), fmt.Sprint(want != "nil"))
				}
			}
		}
	}
	w.Eval(evals)
	w.Sample(map[string]any{"i": c.Index, "pattern": c.Pattern, "haystacks": len(hs), "calls": evals})
	keys := make([]string, 0, len(fails))
	for k := range fails {
		keys = append(keys, k)
	}
	sort.Strings(keys)
	for _, k := range keys {
		a := fails[k]
		var op, cfg string
		for q := 0; q < len(k); q++ {
			if k[q] == '\t' {
				op, cfg = k[:q], k[q+1:]
			}
		}
		w.Fail(Failure{Idx: i, Sub: cfg, API: op, Got: fmt.Sprintf("%d calls differ; first: %s", a.n, a.first), Want: "reference", Pattern: c.Pattern, Region: c.Region.String(), Family: c.Family, Strategy: strategyOf(c.Pattern)})
	}
}

func capsOf(m *nfa.MatchWithCaptures) string {
	if m == nil {
		return "nil"
	}
	var out []int
	for _, idx := range m.Captures {
		if idx == nil {
			out = append(out, -1, -1)
		} else {
			out = append(out, idx[0], idx[1])
		}
	}
	return fmt.Sprint(out)
}

// betweenWant: SearchBetween(h, at, len(h)) is SearchAt for at < len(h) (it declines startAt >= maxEnd).
func betweenWant(spanStr string, at, n int) string {
	if at >= n {
		return "nil"
	}
	return spanStr
}

// triageC14 (baseline only): signatures of the open C14 findings.
func triageC14(f *Failure) string {
	if strings.HasPrefix(f.API, "onepass.") {
		return "KF-C14-05" // one-pass DFA reports no match when bytes follow the match
	}
	switch {
	case strings.HasPrefix(f.API, "Backtracker.") && strings.Contains(f.API, "(over capacity)"):
		return "KF-C14-06" // silent "no match" instead of a decline when CanHandle is false
	case f.API == "lazy.SearchFirstAt":
		return "KF-C14-07" // earliest-match mode
	case f.API == "PikeVM.SearchAll":
		return "KF-C14-08" // adjacency rule of successive matches
	}
	// the first differing call is quoted in Got as: first: h="…" at=N got=… want=…
	txt := f.Got
	if k := strings.Index(txt, `first: h="`); k >= 0 {
		txt = txt[k+len(`first: h=`):]
		if e := strings.Index(txt, `" at=`); e >= 0 {
			txt = txt[:e+1]
		}
	}
	nonASCII := strings.Contains(txt, `\x`) || strings.Contains(txt, `\u`) || strings.Contains(txt, `\U`)
	for _, r := range txt {
		if r >= 0x80 {
			nonASCII = true
		}
	}
	switch {
	case nonASCII:
		return "KF-C14-02" // non-ASCII input (including start offsets inside a code point)
	case features(f.Pattern).look:
		return "KF-C14-03" // look-around in the lazy DFA
	case features(f.Pattern).bigRepeatOfNullable && strings.Contains(f.API, "Captures"):
		return "KF-C14-04" // captures of a repeated group whose last iteration is empty
	}
	return ""
}

func bytesOf(b byte, n int) []byte {
	out := make([]byte, n)
	for i := range out {
		out[i] = b
	}
	return out
}
