package main

import (
	"fmt"
	"strconv"

	"verif/gen"
)

func printPCase(i uint64) {
	p, fam := gen.PString(i)
	fmt.Printf("index=%d family=%s len=%d pattern=%s\n", i, fam, len(p), strconv.Quote(clip(p, 300)))
}
