package main

import (
	"bytes"
	"fmt"
	"regexp"
	"strconv"
	"strings"

	"github.com/coregx/coregex/literal"
	"github.com/coregx/coregex/prefilter"

	"verif/gen"
	"verif/guard"
)

const c16MaxHay = 160

func init() {
	register(&Prop{ID: "C16", N: 6000, Quick: 3000, Variants: cpuVariants,
		Assume: []string{"Find(h,s) is compared with the one-line definition min{i>=s : some literal is a prefix of h[i:]}; complete prefilters with stdlib regexp on the alternation of the quoted literals", "haystacks sit flush against PROT_NONE pages (both ends alternately)"},
		Rule:   "case = one literal set (1-120 literals, lengths 1-12, shared prefixes/nibbles, duplicates, one a prefix, suffix or infix of another) with 8 haystacks (literal at every offset class relative to 16/32/64-byte strides, near misses before the real one); every prefilter the set can be built into (Builder: memchr/memmem/slim Teddy/Aho-Corasick; NewTeddy; NewFatTeddy; digit; WrapIncomplete; WrapLineAnchor; Tracker fresh and aged to inactivity; WrapWithTracking) is asked Find(h,s) for EVERY start s in [0,len(h)] and FindMatch/LiteralLen where complete; one evaluation = one compared call; distinct_nontrivial = distinct (set, haystack, implementation) triples in which some literal occurs in the haystack",
		Triage: func(f *Failure) string { return knownC16(f) },
		Known:  knownC16,
		Run:    runC16})
}

func knownC16(f *Failure) string {
	// KF-C16-01 (earliest-ending Aho-Corasick position) was repaired in 6644e06: nothing is excused any more.
	return ""
}

func c16Set(i uint64) ([][]byte, bool) {
	r := gen.Rng("C16", i)
	counts := []int{1, 1, 1, 2, 2, 3, 4, 5, 8, 9, 16, 20, 33, 40, 64, 70, 70, 90, 120}
	n := counts[r.IntN(len(counts))]
	alphas := []string{"ab", "abc", "abcdefgh", "aAqQ1!", "\x01\x11\x21\x31\x41", "\x10\x11\x12\x13\x14", "abcdefghijklmnopqrstuvwxyz", "xy\n", "ab\xff\x80"}
	alpha := alphas[r.IntN(len(alphas))]
	minL, maxL := 1, 12
	switch r.IntN(4) {
	case 0:
		minL = 3 // Teddy / AC territory
	case 1:
		minL, maxL = 3, 5
	case 2:
		maxL = 2
	}
	var lits [][]byte
	if n > 64 && r.IntN(3) > 0 {
		// large sets for the Aho-Corasick prefilter: distinct literals of one length (substring-free, so the
		// automaton is built), two times out of three plus ONE literal that contains another one strictly inside
		// (the set then must NOT be given to an earliest-ending automaton)
		l := 3 + r.IntN(3)
		seen := map[string]bool{}
		for len(lits) < n {
			b := make([]byte, l)
			for k := range b {
				b[k] = "abcdefghijklmnopqrstuvwxyz"[r.IntN(26)]
			}
			if !seen[string(b)] {
				seen[string(b)] = true
				lits = append(lits, b)
			}
		}
		if r.IntN(3) > 0 {
			o := lits[r.IntN(len(lits))]
			lits[r.IntN(len(lits))] = append(append([]byte{'x'}, o...), 'y')
		}
		return lits, true
	}
	for len(lits) < n {
		l := minL + r.IntN(maxL-minL+1)
		b := make([]byte, l)
		for k := range b {
			b[k] = alpha[r.IntN(len(alpha))]
		}
		switch r.IntN(8) {
		case 0:
			if len(lits) > 0 { // prefix of / extension of an existing literal
				o := lits[r.IntN(len(lits))]
				if r.IntN(2) == 0 && len(o) > minL {
					b = append([]byte(nil), o[:minL+r.IntN(len(o)-minL)]...)
				} else {
					b = append(append([]byte(nil), o...), alpha[r.IntN(len(alpha))])
				}
			}
		case 1:
			if len(lits) > 0 { // shared suffix
				o := lits[r.IntN(len(lits))]
				b = append([]byte{alpha[r.IntN(len(alpha))]}, o...)
			}
		case 2:
			if len(lits) > 0 { // duplicate
				b = append([]byte(nil), lits[r.IntN(len(lits))]...)
			}
		case 3:
			if len(lits) > 0 { // an existing literal strictly inside a new one (infix)
				o := lits[r.IntN(len(lits))]
				b = append(append([]byte{alpha[r.IntN(len(alpha))]}, o...), alpha[r.IntN(len(alpha))])
			}
		}
		if len(b) > 14 {
			b = b[:14]
		}
		lits = append(lits, b)
	}
	return lits, r.IntN(3) != 0
}

func c16Haystacks(i uint64, lits [][]byte) [][]byte {
	r := gen.Rng("C16h", i)
	alpha := map[byte]bool{}
	for _, l := range lits {
		for _, c := range l {
			alpha[c] = true
		}
	}
	var as []byte
	for c := 0; c < 256; c++ {
		if alpha[byte(c)] {
			as = append(as, byte(c))
		}
	}
	as = append(as, '.', '\n')
	var hs [][]byte
	lens := []int{0, 1, 3, 15, 16, 17, 31, 32, 33, 47, 63, 64, 65, 95, 127, 128, 129, 150}
	for k := 0; k < 8; k++ {
		n := lens[r.IntN(len(lens))]
		h := make([]byte, n)
		dense := k%4 == 3
		for j := range h {
			if dense {
				h[j] = as[r.IntN(len(as))]
			} else {
				h[j] = ".,;\n"[r.IntN(4)]
			}
		}
		// near miss then real literal
		if n > 0 && k%4 != 2 {
			l := lits[r.IntN(len(lits))]
			if len(l) <= n {
				o := r.IntN(n - len(l) + 1)
				if k%2 == 0 { // put the literal so that it straddles a stride or ends at the end
					cands := []int{n - len(l), 16 - len(l)/2, 32 - 1, 64 - len(l) + 1, 0}
					o = cands[r.IntN(len(cands))]
					if o < 0 || o+len(l) > n {
						o = n - len(l)
					}
				}
				copy(h[o:], l)
				if len(l) > 1 && o >= len(l)+1 {
					nm := append([]byte(nil), l...)
					nm[len(nm)-1] ^= 0x01
					copy(h[r.IntN(o-len(l)+1):], nm)
				}
				if r.IntN(2) == 0 && o > 0 {
					h[o-1] = '\n'
				}
			}
		}
		hs = append(hs, h)
	}
	return hs
}

type pfImpl struct {
	name string
	pf   prefilter.Prefilter
	kind string // "lits", "digit", "line"
}

func runC16(w *W, i uint64) {
	if w.aux == nil {
		guard.Enable()
		r, err := guard.NewRegion(c16MaxHay + 64)
		if err != nil {
			w.Inconclusive("mmap")
			return
		}
		w.aux = r
	}
	region := w.aux.(*guard.Region)
	lits, complete := c16Set(i)
	hs := c16Haystacks(i, lits)
	var ls []literal.Literal
	for _, l := range lits {
		ls = append(ls, literal.NewLiteral(l, complete))
	}
	var impls []pfImpl
	add := func(name string, pf prefilter.Prefilter, kind string) {
		if pf != nil && !isNilPF(pf) {
			impls = append(impls, pfImpl{name, pf, kind})
			w.Count("impl:"+name, 1)
		}
	}
	built := callPF(func() prefilter.Prefilter { return prefilter.NewBuilder(literal.NewSeq(ls...), nil).Build() })
	bname := "none"
	if built != nil {
		bname = "Builder(" + implName(built) + ")"
		add(bname, built, "lits")
		inner := "(" + implName(built) + ")"
		add("WrapIncomplete"+inner, callPF(func() prefilter.Prefilter { return prefilter.WrapIncomplete(built) }), "lits")
		add("WrapLineAnchor"+inner, callPF(func() prefilter.Prefilter { return prefilter.WrapLineAnchor(built) }), "line")
		add("Tracker/fresh"+inner, callPF(func() prefilter.Prefilter { return prefilter.NewTracker(built) }), "lits")
		aged := callPF(func() prefilter.Prefilter {
			t := prefilter.NewTracker(built)
			junk := bytes.Repeat(append(append([]byte(nil), lits[0]...), '.'), 40)
			for k := 0; k < 400; k++ {
				t.Find(junk, (k*7)%len(junk)) // many candidates, never confirmed
			}
			if !t.IsActive() {
				w.Count("event:tracker-became-inactive", 1)
			}
			return t
		})
		add("Tracker/aged"+inner, aged, "lits")
		add("WrapWithTracking"+inner, callPF(func() prefilter.Prefilter { return prefilter.WrapWithTracking(built) }), "lits")
	} else {
		w.Count("event:builder-declined", 1)
	}
	add("NewTeddy", callPF(func() prefilter.Prefilter {
		t := prefilter.NewTeddy(lits, nil)
		if t == nil {
			return nil
		}
		return t
	}), "lits")
	add("NewFatTeddy", callPF(func() prefilter.Prefilter {
		t := prefilter.NewFatTeddy(lits, nil)
		if t == nil {
			return nil
		}
		return t
	}), "lits")
	if i%16 == 0 {
		add("Digit", prefilter.NewDigitPrefilter(), "digit")
	}
	// reference alternation in list order (leftmost-first)
	var q []string
	for _, l := range lits {
		q = append(q, regexp.QuoteMeta(string(l)))
	}
	// stdlib cannot express raw bytes >= 0x80 in a pattern; for such sets the
	// leftmost-first span of the alternation is computed directly (first literal
	// in list order at the leftmost occurrence position), for all others both.
	var alt *regexp.Regexp
	if a, err := regexp.Compile("(?s:" + strings.Join(q, "|") + ")"); err == nil {
		alt = a
		w.Count("event:alternation-checked-with-regexp", 1)
	}
	span := func(h []byte, s int) (int, int) {
		for p := s; p <= len(h); p++ {
			for _, l := range lits {
				if bytes.HasPrefix(h[p:], l) {
					return p, p + len(l)
				}
			}
		}
		return -1, -1
	}
	type agg struct {
		n     int
		first string
	}
	fails := map[string]*agg{}
	note := func(api, msg string) {
		a := fails[api]
		if a == nil {
			a = &agg{}
			fails[api] = a
		}
		a.n++
		if a.first == "" {
			a.first = msg
		}
	}
	evals := 0
	for hk, src := range hs {
		if hk == 7 && i%16 == 0 {
			for j := range src {
				if j%11 == 5 {
					src[j] = byte('0' + j%10)
				}
			}
		}
		h := region.Place(src, hk%2 == 1, false)
		// naive occurrence table
		occ := make([]bool, len(h)+1)
		any := false
		for p := 0; p <= len(h); p++ {
			for _, l := range lits {
				if bytes.HasPrefix(h[p:], l) {
					occ[p] = true
					any = true
				}
			}
		}
		for _, im := range impls {
			if any {
				w.Nontrivial(strconv.FormatUint(i, 10), strconv.Itoa(hk), im.name)
			}
			for s := 0; s <= len(h); s++ {
				want := -1
				for p := s; p <= len(h); p++ {
					ok := false
					switch im.kind {
					case "digit":
						ok = p < len(h) && h[p] >= '0' && h[p] <= '9'
					case "line":
						ok = occ[p] && (p == 0 || h[p-1] == '\n')
					default:
						ok = occ[p]
					}
					if ok {
						want = p
						break
					}
				}
				if want == len(h) {
					want = -1 // only an empty literal could occur at len(h); sets contain none
				}
				got := call(func() int { return im.pf.Find(h, s) })
				evals++
				if got != want {
					note(im.name+".Find", fmt.Sprintf("Find(h,%d)=%d want %d; h=%s lits=%s", s, got, want, strconv.Quote(string(h)), litsQ(lits)))
				}
				// complete prefilters: exact span
				if im.kind == "lits" && im.pf.IsComplete() {
					if fm, ok := im.pf.(interface{ FindMatch([]byte, int) (int, int) }); ok {
						gs, ge := -1, -1
						if call(func() int { gs, ge = fm.FindMatch(h, s); return 0 }) == -999 {
							gs, ge = -999, -999
						}
						ws, we := span(h, s)
						if alt != nil {
							rs, re := -1, -1
							if loc := alt.FindIndex(h[s:]); loc != nil {
								rs, re = loc[0]+s, loc[1]+s
							}
							if rs != ws || re != we {
								note("harness.reference", fmt.Sprintf("naive span [%d %d] != regexp [%d %d]", ws, we, rs, re))
							}
						}
						evals++
						if gs != ws || (ws >= 0 && ge != we) {
							note(im.name+".FindMatch", fmt.Sprintf("FindMatch(h,%d)=[%d %d] want [%d %d]; h=%s lits=%s", s, gs, ge, ws, we, strconv.Quote(string(h)), litsQ(lits)))
						}
					}
					if ll := im.pf.LiteralLen(); ll > 0 {
						evals++
						for _, l := range lits {
							if len(l) != ll {
								note(im.name+".LiteralLen", fmt.Sprintf("LiteralLen()=%d but literal %q has length %d", ll, l, len(l)))
								break
							}
						}
					}
				}
			}
			if !bytes.Equal(h, src) {
				note(im.name+".store", "haystack modified")
			}
		}
		// wrapper contracts
		if built != nil {
			evals++
			wi := prefilter.WrapIncomplete(built)
			if wi.IsComplete() || wi.LiteralLen() != 0 {
				note("WrapIncomplete.flags", fmt.Sprintf("IsComplete=%v LiteralLen=%d", wi.IsComplete(), wi.LiteralLen()))
			}
		}
	}
	w.Eval(evals)
	w.Sample(map[string]any{"i": i, "literals": litsQ(lits), "complete": complete, "builder": bname, "implementations": len(impls), "calls": evals})
	for api, a := range fails {
		w.Fail(Failure{Idx: i, Sub: "-", API: api, Got: fmt.Sprintf("%d calls differ; first: %s", a.n, a.first), Want: "definition", Pattern: litsQ(lits)})
	}
}

func litsQ(lits [][]byte) string {
	var sb strings.Builder
	for k, l := range lits {
		if k > 0 {
			sb.WriteByte('|')
		}
		if k >= 12 {
			fmt.Fprintf(&sb, "…(%d)", len(lits))
			break
		}
		sb.WriteString(strconv.Quote(string(l)))
	}
	return sb.String()
}

func callPF(f func() prefilter.Prefilter) (p prefilter.Prefilter) {
	defer func() {
		if recover() != nil {
			p = nil
		}
	}()
	return f()
}

func isNilPF(p prefilter.Prefilter) bool {
	return fmt.Sprintf("%v", p) == "<nil>"
}

func implName(p prefilter.Prefilter) string {
	t := fmt.Sprintf("%T", p)
	switch {
	case strings.Contains(t, "memchr"):
		return "memchr"
	case strings.Contains(t, "memmem"):
		return "memmem"
	case strings.Contains(t, "FatTeddy"):
		return "fat-teddy"
	case strings.Contains(t, "Teddy"):
		return "teddy"
	case strings.Contains(t, "AhoCorasick"):
		return "aho-corasick"
	}
	return t
}
