package main

import (
	"bufio"
	"encoding/json"
	"fmt"
	"golang.org/x/sys/cpu"
	"hash/fnv"
	"os"
	"runtime/debug"
	"sort"
	"strconv"
	"strings"
)

// Failure is one violated observation.
type Failure struct {
	Prop     string `json:"prop"`
	Idx      uint64 `json:"idx"`
	Sub      string `json:"sub"`
	API      string `json:"api"`
	Got      string `json:"got"`
	Want     string `json:"want"`
	Pattern  string `json:"pattern,omitempty"`
	Haystack string `json:"haystack_q,omitempty"` // strconv.Quote'd
	Strategy string `json:"strategy,omitempty"`
	Ref      string `json:"ref,omitempty"` // stdlib-independent reference (driven PikeVM) when computed
	Region   string `json:"region,omitempty"`
	Family   string `json:"family,omitempty"`
	Note     string `json:"note,omitempty"`
	KF       string `json:"kf,omitempty"` // set by triage
}

func (f *Failure) Key() string { return fmt.Sprintf("%d\t%s\t%s", f.Idx, f.Sub, f.API) }

func digest(s string) string {
	h := fnv.New64a()
	h.Write([]byte(s))
	return strconv.FormatUint(h.Sum64(), 36)
}

// Summary is what a worker observed.
type Summary struct {
	Cases       int            `json:"cases"`
	Evaluations int            `json:"evaluations"`
	Nontrivial  []uint64       `json:"nontrivial,omitempty"` // hashes of distinct non-trivial cases
	Hist        map[string]int `json:"hist"`                 // named counters: strategy:…, api:…, region:…, event:…
	Samples     []any          `json:"samples,omitempty"`
	Inconcl     int            `json:"inconclusive"`
}

// W is the worker context handed to property runners.
type W struct {
	prop     string
	tier     string
	seed     uint64
	out      *bufio.Writer
	journal  *os.File
	sum      Summary
	nontriv  map[uint64]struct{}
	failures int
	cur      uint64
	variant  string
	aux      any // per-worker resource of the property runner (e.g. a guard region)
	aux2     any
}

func newW(prop, tier string, seed uint64, outPath, journalPath string) *W {
	of, err := os.Create(outPath)
	if err != nil {
		panic(err)
	}
	jf, err := os.Create(journalPath)
	if err != nil {
		panic(err)
	}
	return &W{prop: prop, tier: tier, seed: seed, out: bufio.NewWriter(of), journal: jf,
		sum: Summary{Hist: map[string]int{}}, nontriv: map[uint64]struct{}{}}
}

func (w *W) begin(i uint64) {
	w.cur = i
	fmt.Fprintf(w.journal, "B %d\n", i)
}

func (w *W) end(i uint64) {
	fmt.Fprintf(w.journal, "E %d\n", i)
	w.sum.Cases++
	if w.sum.Cases%50 == 0 {
		w.flushSummary()
	}
}

func (w *W) Count(name string, n int) { w.sum.Hist[name] += n }
func (w *W) Eval(n int)               { w.sum.Evaluations += n }
func (w *W) Inconclusive(what string) { w.sum.Inconcl++; w.sum.Hist["inconclusive:"+what]++ }

// Nontrivial registers a distinct non-trivial case by its content.
func (w *W) Nontrivial(parts ...string) {
	h := fnv.New64a()
	for _, p := range parts {
		h.Write([]byte(p))
		h.Write([]byte{0})
	}
	w.nontriv[h.Sum64()] = struct{}{}
}

func (w *W) Sample(s any) {
	if len(w.sum.Samples) < 3 {
		w.sum.Samples = append(w.sum.Samples, s)
	}
}

func (w *W) Fail(f Failure) {
	f.Prop = w.prop
	if w.variant != "" {
		f.Sub = w.variant + "|" + f.Sub
	}
	if len(f.Got) > 400 {
		f.Got = f.Got[:400] + "…#" + digest(f.Got)
	}
	if len(f.Want) > 400 {
		f.Want = f.Want[:400] + "…#" + digest(f.Want)
	}
	if len(f.Haystack) > 1500 {
		f.Haystack = f.Haystack[:1500] + "…"
	}
	b, _ := json.Marshal(f)
	w.out.WriteString("F ")
	w.out.Write(b)
	w.out.WriteByte('\n')
	w.out.Flush()
	w.failures++
}

// Digest emits a per-case digest that the supervisor compares across process
// variants (same index => same digest under every CPU mask).
func (w *W) Digest(idx uint64, d string) {
	fmt.Fprintf(w.out, "D %d %s\n", idx, d)
}

func (w *W) flushSummary() {
	s := w.sum
	s.Nontrivial = make([]uint64, 0, len(w.nontriv))
	for k := range w.nontriv {
		s.Nontrivial = append(s.Nontrivial, k)
	}
	sort.Slice(s.Nontrivial, func(i, j int) bool { return s.Nontrivial[i] < s.Nontrivial[j] })
	b, _ := json.Marshal(s)
	w.out.WriteString("S ")
	w.out.Write(b)
	w.out.WriteByte('\n')
	w.out.Flush()
}

// Abandon ends the worker process deliberately in the middle of case i: the verdict of the case has been
// recorded, but a call that exceeded its work budget is still running and a goroutine cannot be stopped.
// The supervisor restarts a worker for the remaining cases ("X" in the journal = no crash).
func (w *W) Abandon(i uint64) {
	w.sum.Cases++
	w.Count("event:worker-abandoned-after-budget", 1)
	w.flushSummary()
	fmt.Fprintf(w.journal, "X %d\n", i)
	w.journal.Close()
	os.Exit(0)
}

func (w *W) close() {
	w.flushSummary()
	fmt.Fprintf(w.journal, "DONE\n")
	w.journal.Close()
}

// workerMain: vcheck worker <prop> <tier> <seed> <indexfile> <outfile> <journal>
func workerMain(args []string) {
	prop, tier := args[0], args[1]
	// Go's default stack limit (1 GB) is kept: a stack overflow reported by a worker is one a user would get
	if mb, err := strconv.Atoi(os.Getenv("VERIF_MAXSTACK_MB")); err == nil && mb > 0 {
		debug.SetMaxStack(mb << 20) // diagnosis only
	}
	seed, _ := strconv.ParseUint(args[2], 10, 64)
	idxData, err := os.ReadFile(args[3])
	if err != nil {
		panic(err)
	}
	p := props[prop]
	if p == nil {
		fmt.Fprintln(os.Stderr, "unknown property", prop)
		os.Exit(2)
	}
	w := newW(prop, tier, seed, args[4], args[5])
	w.variant = os.Getenv("VERIF_VARIANT")
	if w.variant != "" {
		w.Count(fmt.Sprintf("variant:%s avx2=%v ssse3=%v (worker processes)", w.variant, cpu.X86.HasAVX2, cpu.X86.HasSSSE3), 1)
	}
	if p.Init != nil {
		p.Init(w)
	}
	for _, f := range strings.Fields(string(idxData)) {
		i, _ := strconv.ParseUint(f, 10, 64)
		w.begin(i)
		p.Run(w, i)
		w.end(i)
	}
	if p.Finish != nil {
		p.Finish(w)
	}
	w.close()
}
