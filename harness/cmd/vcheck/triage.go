package main

import (
	"regexp/syntax"
	"strconv"
	"strings"
	"unicode/utf8"
)

// Signatures of the open findings (DESIGN §6.3). A failing observation of the
// baseline run is attributed to a finding only if it satisfies the finding's
// predicate; anything else stops `baseline`. At check time suppression is by
// exact (case, API, wrong-answer digest) lists, never by these predicates.

type feats struct {
	ok                                          bool
	look, lazy, fold, nonASCII, nullable, empty bool
	bigRepeatOfNullable                         bool
}

func features(p string) feats {
	re, err := syntax.Parse(p, syntax.Perl)
	if err != nil {
		return feats{}
	}
	f := feats{ok: true}
	var walk func(r *syntax.Regexp)
	walk = func(r *syntax.Regexp) {
		switch r.Op {
		case syntax.OpBeginLine, syntax.OpEndLine, syntax.OpBeginText, syntax.OpEndText, syntax.OpWordBoundary, syntax.OpNoWordBoundary:
			f.look = true
		case syntax.OpStar, syntax.OpPlus, syntax.OpQuest, syntax.OpRepeat:
			if r.Flags&syntax.NonGreedy != 0 {
				f.lazy = true
			}
			if len(r.Sub) == 1 && canBeEmpty(r.Sub[0]) {
				f.bigRepeatOfNullable = true
			}
		case syntax.OpLiteral:
			if r.Flags&syntax.FoldCase != 0 {
				f.fold = true
			}
			for _, c := range r.Rune {
				if c > 127 {
					f.nonASCII = true
				}
			}
		case syntax.OpCharClass:
			for _, c := range r.Rune {
				if c > 127 {
					f.nonASCII = true
				}
			}
		case syntax.OpAnyChar, syntax.OpAnyCharNotNL:
			f.nonASCII = true
		case syntax.OpEmptyMatch:
			f.empty = true
		}
		for _, s := range r.Sub {
			walk(s)
		}
	}
	walk(re)
	f.nullable = canBeEmpty(re)
	return f
}

func canBeEmpty(r *syntax.Regexp) bool {
	switch r.Op {
	case syntax.OpEmptyMatch, syntax.OpStar, syntax.OpQuest, syntax.OpBeginLine, syntax.OpEndLine, syntax.OpBeginText, syntax.OpEndText, syntax.OpWordBoundary, syntax.OpNoWordBoundary:
		return true
	case syntax.OpRepeat:
		return r.Min == 0 || canBeEmpty(r.Sub[0])
	case syntax.OpPlus, syntax.OpCapture:
		return canBeEmpty(r.Sub[0])
	case syntax.OpConcat:
		for _, s := range r.Sub {
			if !canBeEmpty(s) {
				return false
			}
		}
		return true
	case syntax.OpAlternate:
		for _, s := range r.Sub {
			if canBeEmpty(s) {
				return true
			}
		}
		return false
	case syntax.OpLiteral:
		return len(r.Rune) == 0
	}
	return false
}

func hayOf(f *Failure) []byte {
	s, err := strconv.Unquote(strings.TrimSuffix(f.Haystack, "…"))
	if err != nil {
		// truncated haystack: unquote what is there
		q := f.Haystack
		for len(q) > 1 {
			q = q[:len(q)-1]
			if s2, err2 := strconv.Unquote(q + `"`); err2 == nil {
				return []byte(s2)
			}
		}
		return nil
	}
	return []byte(s)
}

// triageDiff: stdlib-differential properties C01-C04, C08, C10 and the config property C12.
func triageDiff(f *Failure) string {
	h := hayOf(f)
	ft := features(f.Pattern)
	prop := f.Prop
	illformed := h != nil && !utf8.Valid(h)
	nonASCIIhay := false
	for _, c := range h {
		if c >= 0x80 {
			nonASCIIhay = true
		}
	}
	switch {
	case f.API == "Compile" || f.API == "CRASH" || f.API == "STALL" || f.API == "WORKER":
		return ""
	case illformed:
		// KF-01: ill-formed input. regexp treats each invalid byte as U+FFFD (width 1); the byte automata only accept well-formed sequences.
		return "KF-" + prop + "-01"
	case nonASCIIhay:
		// KF-02: valid non-ASCII input: searches start / empty matches are reported inside code points
		return "KF-" + prop + "-02"
	case ft.look:
		// KF-03: look-around in DFA-based strategies
		return "KF-" + prop + "-03"
	case ft.bigRepeatOfNullable:
		// KF-04: capture positions of a repeated group whose last iteration is empty
		if prop == "C03" || prop == "C04" || prop == "C08" || prop == "C10" {
			return "KF-" + prop + "-04"
		}
	}
	return ""
}

// triageC09: Compile/metadata.
func triageC09(f *Failure) string {
	switch {
	case strings.HasSuffix(f.API, "LiteralPrefix"):
		return "KF-C09-01" // LiteralPrefix is re-derived from the AST instead of the compiled program
	case (f.API == "Compile" || f.API == "MustCompile" || f.API == "CompilePOSIX" || f.API == "MustCompilePOSIX") && strings.Contains(f.Got, "pattern too complex"):
		return "KF-C09-02" // nesting deeper than MaxRecursionDepth (100) is rejected
	}
	return ""
}

// triageC11: relations between views.
func triageC11(f *Failure) string { return triageDiff(f) }
