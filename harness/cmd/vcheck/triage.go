package main

// triageDiff attributes a failure of the stdlib-differential properties to an
// open finding by signature (DESIGN §6.3). It is used only by `baseline`.
func triageDiff(f *Failure) string {
	return ""
}

func triageC09(f *Failure) string { return "" }
func triageC11(f *Failure) string { return "" }
