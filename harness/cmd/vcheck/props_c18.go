package main

import (
	"bytes"
	"fmt"
	"os"
	"strconv"

	"github.com/coregx/coregex/simd"

	"verif/gen"
	"verif/guard"
)

var cpuVariants = []Variant{
	{Name: "cpu=default"},
	{Name: "cpu=avx2-off", Env: []string{"GODEBUG=cpu.avx2=off"}},
	{Name: "cpu=avx2-ssse3-off", Env: []string{"GODEBUG=cpu.avx2=off,cpu.ssse3=off,cpu.sse41=off,cpu.sse42=off"}},
}

const c18MaxLen = 200

func init() {
	register(&Prop{ID: "C18", N: (c18MaxLen + 1) * 8, Quick: 150, Exhaustive: true, Variants: cpuVariants,
		Assume: []string{"one-line scalar definitions (DESIGN Appendix C.3) are the reference", "guard pages + SetPanicOnFault observe loads past either end of the slice and any store to it; a stray load that stays inside the slice's own page before a flush-right slice is only seen in the flush-left placement, so both are used", "GODEBUG=cpu.*=off (honoured by golang.org/x/sys/cpu) selects the SSSE3 and scalar variants in separate worker processes"},
		Rule:   "case = (length 0..200, content variant); for each case every hit position (each index and 'none') × every primitive (Memchr, Memchr2, Memchr3, MemchrPair, Memmem, MemchrDigit(At), MemchrWord/NotWord, MemchrInTable/NotInTable, IsASCII, CountNonASCII, FirstNonASCII, SelectRareBytes) × placements (flush-left and flush-right against PROT_NONE pages on read-only data, plus heap slices at alignments mod 64) × 3 CPU masks; one evaluation = one primitive call compared with its scalar definition; distinct_nontrivial = distinct (length, variant, position, primitive) grid points with a hit or a near-miss byte present",
		Run:    runC18})
}

func naiveIndex(h []byte, pred func(byte) bool) int {
	for i, c := range h {
		if pred(c) {
			return i
		}
	}
	return -1
}

func isWordB(c byte) bool {
	return c == '_' || (c >= '0' && c <= '9') || (c >= 'a' && c <= 'z') || (c >= 'A' && c <= 'Z')
}

type c18ctx struct {
	w      *W
	idx    uint64
	region *guard.Region
	evals  int
	fails  map[string]int
	first  map[string]string
}

func (c *c18ctx) cmp(name, place string, h []byte, got, want int, arg string) {
	c.evals++
	if got == want {
		return
	}
	k := name + "\t" + place
	c.fails[k]++
	if c.first[k] == "" {
		c.first[k] = fmt.Sprintf("len=%d %s got=%d want=%d h=%s", len(h), arg, got, want, strconv.Quote(string(h)))
	}
}

// call runs f with fault recovery: a guard-page fault becomes result -999.
func call(f func() int) (r int) {
	defer func() {
		if recover() != nil {
			r = -999
		}
	}()
	return f()
}

func runC18(w *W, i uint64) {
	if w.aux == nil {
		guard.Enable()
		if !guard.Probe() {
			w.Inconclusive("guard-probe-failed")
		} else {
			w.Count("event:guard-probe-ok", 1)
		}
		r, err := guard.NewRegion(c18MaxLen + 64)
		if err != nil {
			w.Inconclusive("mmap")
			return
		}
		w.aux = r
	}
	c := &c18ctx{w: w, idx: i, region: w.aux.(*guard.Region), fails: map[string]int{}, first: map[string]string{}}
	n := int(i % (c18MaxLen + 1))
	variant := int(i / (c18MaxLen + 1))
	r := gen.Rng("C18", i)

	// content variants: filler byte classes chosen so that the searched bytes do not occur unless placed
	// the last two are near-miss fillers: bytes one bit / one step away from the needles 'x', 'Y', '7' (SWAR zero-byte
	// tricks produce borrow artefacts exactly next to such bytes)
	fillers := [][]byte{{'.'}, {0x00}, {0xff}, {' ', '-', '.', '!'}, {0x80, 0xfe, 0xc3}, {'.', ' ', 0x7f, 0x80}, {'y', 'X'}, {'y', 'X', '6', 'w', 'Z', '8', 0xf8, 0xd9}}
	fill := fillers[variant%len(fillers)]
	base := make([]byte, n)
	for k := range base {
		base[k] = fill[r.IntN(len(fill))]
	}
	needleA, needleB, needleC := byte('x'), byte('Y'), byte('7')
	aligns := []int{0, 1, 15, 16, 17, 31, 32, 33, 63}
	if w.tier == "thorough" {
		aligns = aligns[:0]
		for a := 0; a < 64; a++ {
			aligns = append(aligns, a)
		}
	}
	heap := make([]byte, n+128)

	table := &[256]bool{}
	for k := 0; k < 256; k++ {
		table[k] = r.IntN(5) == 0
	}
	for _, f := range fill {
		table[f] = false
	}
	table[needleA] = true
	notTable := &[256]bool{}
	for k := range notTable {
		notTable[k] = true
	}
	notTable[needleA] = false

	run := func(place string, h []byte, pos int) {
		arg := "pos=" + strconv.Itoa(pos)
		c.cmp("Memchr", place, h, call(func() int { return simd.Memchr(h, needleA) }), bytes.IndexByte(h, needleA), arg)
		c.cmp("Memchr2", place, h, call(func() int { return simd.Memchr2(h, needleB, needleA) }), naiveIndex(h, func(b byte) bool { return b == needleA || b == needleB }), arg)
		c.cmp("Memchr3", place, h, call(func() int { return simd.Memchr3(h, needleC, needleB, needleA) }), naiveIndex(h, func(b byte) bool { return b == needleA || b == needleB || b == needleC }), arg)
		c.cmp("MemchrDigit", place, h, call(func() int { return simd.MemchrDigit(h) }), naiveIndex(h, func(b byte) bool { return b >= '0' && b <= '9' }), arg)
		c.cmp("MemchrWord", place, h, call(func() int { return simd.MemchrWord(h) }), naiveIndex(h, isWordB), arg)
		c.cmp("MemchrInTable", place, h, call(func() int { return simd.MemchrInTable(h, table) }), naiveIndex(h, func(b byte) bool { return table[b] }), arg)
		c.cmp("MemchrNotInTable", place, h, call(func() int { return simd.MemchrNotInTable(h, notTable) }), naiveIndex(h, func(b byte) bool { return !notTable[b] }), arg)
		c.cmp("FirstNonASCII", place, h, call(func() int { return simd.FirstNonASCII(h) }), naiveIndex(h, func(b byte) bool { return b >= 0x80 }), arg)
		cnt := 0
		for _, b := range h {
			if b >= 0x80 {
				cnt++
			}
		}
		c.cmp("CountNonASCII", place, h, call(func() int { return simd.CountNonASCII(h) }), cnt, arg)
		asc := 0
		if cnt == 0 {
			asc = 1
		}
		c.cmp("IsASCII", place, h, call(func() int {
			if simd.IsASCII(h) {
				return 1
			}
			return 0
		}), asc, arg)
		for _, at := range []int{0, pos, pos + 1, len(h) - 1, len(h)} {
			if at < 0 || at > len(h) {
				continue
			}
			want := -1
			for k := at; k < len(h); k++ {
				if h[k] >= '0' && h[k] <= '9' {
					want = k
					break
				}
			}
			c.cmp("MemchrDigitAt", place, h, call(func() int { return simd.MemchrDigitAt(h, at) }), want, arg+" at="+strconv.Itoa(at))
		}
		for _, off := range []int{0, 1, 2, 3, 7, 16, 31, 32} {
			want := -1
			for k := 0; k < len(h); k++ {
				if h[k] == needleA && k+off < len(h) && h[k+off] == needleB {
					want = k
					break
				}
			}
			if off == 0 {
				want = -1 // same position, different bytes: impossible
			}
			c.cmp("MemchrPair", place, h, call(func() int { return simd.MemchrPair(h, needleA, needleB, off) }), want, arg+" off="+strconv.Itoa(off))
		}
	}

	// MemchrNotWord needs word filler: separate content
	runNotWord := func(place string, h []byte) {
		c.cmp("MemchrNotWord", place, h, call(func() int { return simd.MemchrNotWord(h) }), naiveIndex(h, func(b byte) bool { return !isWordB(b) }), "")
	}

	work := make([]byte, n)
	for pos := -1; pos < n; pos++ {
		copy(work, base)
		if pos >= 0 {
			// place the needle(s): position pos holds needleA; sometimes B/C before or after it
			work[pos] = needleA
			switch r.IntN(6) {
			case 0:
				if pos+1 < n {
					work[pos+1] = needleB
				}
			case 1:
				if pos > 0 {
					work[pos-1] = needleC
				}
			case 2:
				if pos+3 < n {
					work[pos+3] = needleB
				}
			case 3:
				if k := pos + 1 + r.IntN(40); k < n {
					work[k] = needleB
				}
			}
			if r.IntN(3) == 0 && n > 0 {
				work[r.IntN(n)] = byte('0' + r.IntN(10))
			}
		}
		c.w.Nontrivial("C18", strconv.Itoa(n), strconv.Itoa(variant), strconv.Itoa(pos))
		// guard placements
		for _, right := range []bool{false, true} {
			ro := (pos+1)%16 == 0
			h := c.region.Place(work, right, ro)
			place := "guard-left"
			if right {
				place = "guard-right"
			}
			run(place, h, pos)
			if !bytes.Equal(h, work) {
				c.cmp("store-to-haystack", place, work, 1, 0, "haystack bytes changed by a primitive")
			}
		}
		// heap alignments (value comparison + canaries)
		for _, a := range aligns {
			off := (64 - int(uintptrOf(heap)%64) + a) % 64
			for k := range heap {
				heap[k] = 0xEE
			}
			h := heap[off : off+n : off+n]
			copy(h, work)
			run("heap-align-"+strconv.Itoa(a), h, pos)
			for k, b := range heap {
				if (k < off || k >= off+n) && b != 0xEE {
					c.cmp("canary", "heap-align-"+strconv.Itoa(a), h, k, -1, "byte outside the slice modified")
					break
				}
			}
		}
	}
	// not-word: word filler with one non-word byte at each position
	for pos := -1; pos < n; pos += 1 + n/40 {
		for k := range work {
			work[k] = "azAZ09_"[r.IntN(7)]
		}
		if pos >= 0 {
			work[pos] = []byte{' ', 0x80, 0xff, '-', 0x00}[r.IntN(5)]
		}
		for _, right := range []bool{false, true} {
			place := "guard-left"
			if right {
				place = "guard-right"
			}
			runNotWord(place, c.region.Place(work, right, false))
		}
	}
	// Memmem: needles of length 0..40 taken from / absent from the haystack
	for t := 0; t < 24; t++ {
		for k := range work {
			work[k] = "ab"[r.IntN(2)]
		}
		nl := r.IntN(41)
		var needle []byte
		if n > 0 && nl <= n && r.IntN(4) != 0 {
			s := r.IntN(n - nl + 1)
			needle = append(needle, work[s:s+nl]...)
		} else {
			needle = make([]byte, nl)
			for k := range needle {
				needle[k] = "abc"[r.IntN(3)]
			}
		}
		if r.IntN(3) == 0 && len(needle) > 0 {
			needle[r.IntN(len(needle))] = 'q' // rare byte
			if n >= len(needle) && r.IntN(2) == 0 {
				copy(work[r.IntN(n-len(needle)+1):], needle)
			}
		}
		want := bytes.Index(work, needle)
		for _, right := range []bool{false, true} {
			place := "guard-left"
			if right {
				place = "guard-right"
			}
			h := c.region.Place(work, right, t%8 == 0)
			nd := append([]byte(nil), needle...)
			c.cmp("Memmem", place, h, call(func() int { return simd.Memmem(h, nd) }), want, "needle="+strconv.Quote(string(needle)))
		}
		if len(needle) > 0 {
			info := simd.SelectRareBytes(needle)
			ok := 1
			if info.Index1 < 0 || info.Index1 >= len(needle) || needle[info.Index1] != info.Byte1 {
				ok = 0
			}
			if len(needle) > 1 && (info.Index2 < 0 || info.Index2 >= len(needle) || needle[info.Index2] != info.Byte2) {
				ok = 0
			}
			c.cmp("SelectRareBytes", "heap", needle, ok, 1, fmt.Sprintf("%+v", info))
		}
	}
	w.Eval(c.evals)
	w.Count("event:grid-points", n+1)
	w.Sample(map[string]any{"i": i, "len": n, "content_variant": variant, "positions": n + 1, "calls": c.evals, "variant": os.Getenv("VERIF_VARIANT")})
	for k, cnt := range c.fails {
		var name, place string
		fmt.Sscanf(k, "%s\t%s", &name, &place)
		w.Fail(Failure{Idx: i, Sub: place, API: name, Got: fmt.Sprintf("%d grid points differ; first: %s", cnt, c.first[k]), Want: "scalar definition"})
	}
}
