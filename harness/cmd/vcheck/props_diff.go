package main

import (
	"fmt"
	"regexp"
	"strconv"
	"strings"

	"github.com/coregx/coregex"
	"github.com/coregx/coregex/meta"
	"github.com/coregx/coregex/nfa"

	"verif/gen"
	"verif/obs"
)

// universe sizes of the differential family (thorough = all of it)
const (
	diffN     = 120000
	diffQuick = 9000
)

var stdAssume = []string{
	"stdlib regexp of the pinned toolchain is the reference model",
	"cases come from the indexed universe G(D,i) (gen/); exploration beyond the universe happens only at development time",
	"each case runs on freshly compiled values in a worker child process",
}

// compileBoth compiles the case pattern with stdlib and coregex; a coregex
// compile failure on a pattern stdlib accepts is itself an observation.
func compileBoth(w *W, c *gen.Case) (*regexp.Regexp, *coregex.Regex, bool) {
	std, err := regexp.Compile(c.Pattern)
	if err != nil {
		return nil, nil, false
	}
	var cre *coregex.Regex
	var cerr error
	v := obs.Call(func() string {
		cre, cerr = coregex.Compile(c.Pattern)
		if cerr != nil {
			return "error: " + cerr.Error()
		}
		return "ok"
	})
	if v != "ok" {
		w.Eval(1)
		w.Fail(Failure{Idx: c.Index, Sub: "-", API: "Compile", Got: v, Want: "ok", Pattern: c.Pattern, Region: c.Region.String(), Family: c.Family})
		return std, nil, false
	}
	return std, cre, true
}

func strategyOf(p string) (s string) {
	defer func() {
		if r := recover(); r != nil {
			s = "?"
		}
	}()
	e, err := meta.Compile(p)
	if err != nil {
		return "?"
	}
	return e.Strategy().String()
}

// pikeRef drives nfa.PikeVM directly (the stdlib-independent reference): span of
// the first match and its captures.
func pikeRef(p string, h []byte) (s string) {
	defer func() {
		if r := recover(); r != nil {
			s = "PANIC"
		}
	}()
	n, err := nfa.NewDefaultCompiler().Compile(p)
	if err != nil {
		return "error"
	}
	vm := nfa.NewPikeVM(n)
	m := vm.SearchWithCaptures(h)
	if m == nil {
		return "nil"
	}
	var out []int
	for _, idx := range m.Captures {
		if idx == nil {
			out = append(out, -1, -1)
		} else {
			out = append(out, idx[0], idx[1])
		}
	}
	return fmt.Sprint(out)
}

// compare emits a failure for every record that differs.
func compare(w *W, c *gen.Case, sub string, h []byte, got, want []obs.Rec, nontrivial bool) {
	w.Eval(len(got))
	if nontrivial {
		w.Nontrivial(c.Pattern, string(h), sub)
	}
	var strat, ref string
	for k := range got {
		w.Count("api:"+apiBase(got[k].API), 1)
		if got[k].Val == want[k].Val {
			continue
		}
		if strat == "" {
			strat = strategyOf(c.Pattern)
			ref = pikeRef(c.Pattern, h)
		}
		w.Fail(Failure{Idx: c.Index, Sub: sub, API: got[k].API, Got: got[k].Val, Want: want[k].Val,
			Pattern: c.Pattern, Haystack: strconv.Quote(string(h)), Strategy: strat, Ref: ref, Region: c.Region.String(), Family: c.Family})
	}
}

func apiBase(a string) string {
	if i := strings.IndexByte(a, '('); i >= 0 {
		return a[:i]
	}
	return a
}

func caseStats(w *W, c *gen.Case) {
	w.Count("region:"+c.Region.String(), 1)
	w.Count("family:"+c.Family, 1)
	w.Count("strategy:"+strategyOf(c.Pattern), 1)
}

func sampleOf(c *gen.Case, k int, api, want string) map[string]any {
	return map[string]any{"i": c.Index, "pattern": c.Pattern, "haystack_q": strconv.Quote(string(c.Haystacks[k])), "api": api, "want": want}
}

func init() {
	register(&Prop{ID: "C01", Witness: true, N: diffN, Quick: diffQuick, Assume: stdAssume,
		Rule:   "cases G(D,i): thorough = all i<N, quick = seed-chosen subset + witnesses of open findings; one evaluation = one API call compared with stdlib; distinct_nontrivial = distinct (pattern, haystack) pairs on which stdlib reports a match or the haystack was derived from a language sample of the pattern",
		Triage: triageDiff,
		Run: func(w *W, i uint64) {
			c := gen.D(i)
			std, cre, ok := compileBoth(w, &c)
			if !ok {
				return
			}
			caseStats(w, &c)
			for k, h := range c.Haystacks {
				want := obs.Exists(std, h)
				got := obs.Exists(cre, h)
				// package-level functions
				want = append(want, obs.Rec{API: "pkg.Match", Val: obs.Call(func() string { m, e := regexp.Match(c.Pattern, h); return fmt.Sprint(m, e) })},
					obs.Rec{API: "pkg.MatchString", Val: obs.Call(func() string { m, e := regexp.MatchString(c.Pattern, string(h)); return fmt.Sprint(m, e) })},
					obs.Rec{API: "pkg.MatchReader", Val: obs.Call(func() string { m, e := regexp.MatchReader(c.Pattern, obs.Reader(h)); return fmt.Sprint(m, e) })})
				got = append(got, obs.Rec{API: "pkg.Match", Val: obs.Call(func() string { m, e := coregex.Match(c.Pattern, h); return fmt.Sprint(m, e) })},
					obs.Rec{API: "pkg.MatchString", Val: obs.Call(func() string { m, e := coregex.MatchString(c.Pattern, string(h)); return fmt.Sprint(m, e) })},
					obs.Rec{API: "pkg.MatchReader", Val: obs.Call(func() string { m, e := coregex.MatchReader(c.Pattern, obs.Reader(h)); return fmt.Sprint(m, e) })})
				compare(w, &c, "h"+strconv.Itoa(k), h, got, want, true)
				if want[0].Val == "true" {
					w.Count("event:reference-match", 1)
				} else {
					w.Count("event:reference-nomatch", 1)
				}
				if k == 0 {
					w.Sample(sampleOf(&c, k, "Match", want[0].Val))
				}
			}
		}})

	register(&Prop{ID: "C02", Witness: true, N: diffN, Quick: diffQuick, Assume: stdAssume,
		Rule:   "cases G(D,i) as for C01; one evaluation = one first-match API call compared with stdlib (nil-ness and both offsets / text); distinct_nontrivial = distinct (pattern, haystack) pairs with a reference match",
		Triage: triageDiff,
		Run: func(w *W, i uint64) {
			c := gen.D(i)
			std, cre, ok := compileBoth(w, &c)
			if !ok {
				return
			}
			caseStats(w, &c)
			eng, _ := meta.Compile(c.Pattern)
			for k, h := range c.Haystacks {
				want := obs.First(std, h)
				got := obs.First(cre, h)
				if eng != nil {
					want = append(want, obs.Rec{API: "Engine.FindIndices", Val: want[0].Val})
					got = append(got, obs.Rec{API: "Engine.FindIndices", Val: obs.Call(func() string {
						s, e, f := eng.FindIndices(h)
						if !f {
							return "nil"
						}
						return fmt.Sprint([]int{s, e})
					})})
				}
				nt := want[0].Val != "nil"
				compare(w, &c, "h"+strconv.Itoa(k), h, got, want, nt)
				if nt {
					w.Count("event:reference-match", 1)
					loc := std.FindIndex(h)
					if loc[1]-loc[0] > 100 {
						w.Count("event:match-longer-than-100", 1)
					}
					if loc[1] == loc[0] {
						w.Count("event:empty-match", 1)
					}
				}
				if k == 0 {
					w.Sample(sampleOf(&c, k, "FindIndex", want[0].Val))
				}
			}
		}})

	register(&Prop{ID: "C03", Witness: true, N: diffN, Quick: diffQuick, Assume: stdAssume,
		Rule:   "cases G(D,i) as for C01; one evaluation = one FindSubmatch-family call compared element-wise with stdlib, plus the length check 2*(NumSubexp()+1); distinct_nontrivial = distinct (pattern, haystack) pairs with a reference match and at least one capture group",
		Triage: triageDiff,
		Run: func(w *W, i uint64) {
			c := gen.D(i)
			std, cre, ok := compileBoth(w, &c)
			if !ok {
				return
			}
			caseStats(w, &c)
			for k, h := range c.Haystacks {
				want := obs.Submatch(std, h)
				got := obs.Submatch(cre, h)
				// group-count law
				want = append(want, obs.Rec{API: "len(FindSubmatchIndex)", Val: lenLaw(std.FindSubmatchIndex(h), std.NumSubexp())})
				got = append(got, obs.Rec{API: "len(FindSubmatchIndex)", Val: obs.Call(func() string { return lenLaw(cre.FindSubmatchIndex(h), cre.NumSubexp()) })})
				nt := want[0].Val != "nil" && std.NumSubexp() > 0
				compare(w, &c, "h"+strconv.Itoa(k), h, got, want, nt)
				if nt {
					w.Count("event:reference-match-with-groups", 1)
				}
				if k == 0 {
					w.Sample(sampleOf(&c, k, "FindSubmatchIndex", want[0].Val))
				}
			}
		}})

	register(&Prop{ID: "C04", Witness: true, N: diffN, Quick: diffQuick - 3000, Assume: stdAssume,
		Rule:   "cases G(D,i) as for C01, each with 5 limits n; one evaluation = one enumeration API call (FindAll family, Count, iterators incl. early break, AppendAllIndex with four dst shapes, Engine streaming/count) compared with the sequence stdlib's FindAll(Submatch)Index yields; distinct_nontrivial = distinct (pattern, haystack) pairs where the reference enumerates at least one match",
		Triage: triageDiff,
		Run: func(w *W, i uint64) {
			c := gen.D(i)
			std, cre, ok := compileBoth(w, &c)
			if !ok {
				return
			}
			caseStats(w, &c)
			eng, _ := meta.Compile(c.Pattern)
			for k, h := range c.Haystacks {
				all := std.FindAllIndex(h, -1)
				nt := len(all) > 0
				if nt {
					w.Count("event:reference-enumerates", 1)
					for _, m := range all {
						if m[0] == m[1] {
							w.Count("event:empty-match-in-sequence", 1)
							break
						}
					}
				}
				for j, n := range c.Ns {
					if k >= 3 && j >= 2 {
						continue // full n-grid on the first three haystacks only
					}
					want := obs.All(std, h, n)
					got := obs.All(cre, h, n)
					ew, eg := extras(std, cre, eng, h, n)
					want = append(want, ew...)
					got = append(got, eg...)
					compare(w, &c, "h"+strconv.Itoa(k), h, got, want, nt)
				}
				if k == 0 {
					w.Sample(sampleOf(&c, k, "FindAllIndex(-1)", obs.Ints2(all)))
				}
			}
		}})

	register(&Prop{ID: "C08", Witness: true, N: diffN, Quick: diffQuick - 2000, Assume: stdAssume,
		Rule:   "cases G(D,i) as for C01, each with 4 generated templates and Split limits; one evaluation = one call of the nine replace/expand/split functions compared byte-wise with stdlib; distinct_nontrivial = distinct (pattern, haystack, template) triples where the reference finds a match",
		Triage: triageDiff,
		Run: func(w *W, i uint64) {
			c := gen.D(i)
			std, cre, ok := compileBoth(w, &c)
			if !ok {
				return
			}
			caseStats(w, &c)
			splitN := []int{-1, 0, 1, 2, 3, 1 << 20}
			for k, h := range c.Haystacks {
				if k >= 4 {
					break
				}
				sm := std.FindSubmatchIndex(h)
				for j, t := range c.Templates {
					n := splitN[(k*4+j)%len(splitN)]
					want := obs.Replace(std, h, t, n)
					got := obs.Replace(cre, h, t, n)
					// Expand on the reference's match vector and on degenerate vectors
					vecs := [][]int{sm, nil, {0}, {-1, -1}, {0, len(h)}}
					if j == 0 && len(h) > 0 {
						vecs = append(vecs, []int{0, 1, -1, -1, 0, 0})
					}
					for vi, vec := range vecs {
						if vi > 0 && j > 1 {
							break
						}
						ok := true
						for q := 0; q+1 < len(vec); q += 2 {
							if vec[q] > len(h) || vec[q+1] > len(h) {
								ok = false
							}
						}
						if !ok {
							continue
						}
						ew := obs.Expand(std, h, t, vec)
						eg := obs.Expand(cre, h, t, vec)
						for q := range ew {
							ew[q].API += "#" + strconv.Itoa(vi)
							eg[q].API += "#" + strconv.Itoa(vi)
						}
						want = append(want, ew...)
						got = append(got, eg...)
					}
					// fresh copy when nothing matches
					if sm == nil {
						want = append(want, obs.Rec{API: "ReplaceAll/no-alias", Val: "fresh"})
						got = append(got, obs.Rec{API: "ReplaceAll/no-alias", Val: obs.Call(func() string {
							r := cre.ReplaceAll(h, []byte(t))
							if len(r) > 0 && len(h) > 0 && &r[0] == &h[0] {
								return "aliases src"
							}
							return "fresh"
						})})
					}
					compare(w, &c, fmt.Sprintf("h%d/t%d", k, j), h, got, want, sm != nil)
					if sm != nil {
						w.Count("event:reference-match", 1)
					}
					if strings.Contains(t, "$") {
						w.Count("event:template-with-dollar", 1)
					}
				}
				if k == 0 {
					w.Sample(map[string]any{"i": c.Index, "pattern": c.Pattern, "haystack_q": strconv.Quote(string(h)), "template": c.Templates[0], "want": strconv.Quote(string(std.ReplaceAll(h, []byte(c.Templates[0]))))})
				}
			}
		}})
}

func lenLaw(v []int, nsub int) string {
	if v == nil {
		return "nil"
	}
	if len(v) == 2*(nsub+1) {
		return "ok"
	}
	return fmt.Sprintf("len=%d want %d", len(v), 2*(nsub+1))
}

// extras: the coregex-only enumeration APIs, with expectations derived from
// stdlib's FindAllIndex / FindAllSubmatchIndex.
func extras(std *regexp.Regexp, cre *coregex.Regex, eng *meta.Engine, h []byte, n int) (want, got []obs.Rec) {
	s := string(h)
	sn := "(" + strconv.Itoa(n) + ")"
	all := std.FindAllIndex(h, n)
	allNeg := std.FindAllIndex(h, -1)
	pairs := func(a [][]int) string {
		var sb strings.Builder
		sb.WriteByte('[')
		for _, m := range a {
			fmt.Fprintf(&sb, "[%d %d]", m[0], m[1])
		}
		sb.WriteByte(']')
		return sb.String()
	}
	pairs2 := func(a [][2]int) string {
		var sb strings.Builder
		sb.WriteByte('[')
		for _, m := range a {
			fmt.Fprintf(&sb, "[%d %d]", m[0], m[1])
		}
		sb.WriteByte(']')
		return sb.String()
	}
	add := func(api, w string, g func() string) {
		want = append(want, obs.Rec{API: api, Val: w})
		got = append(got, obs.Rec{API: api, Val: obs.Call(g)})
	}
	// Count: as many as the enumeration yields for limit n (none for n==0, all for n<0)
	cnt := len(all)
	add("Count"+sn, strconv.Itoa(cnt), func() string { return strconv.Itoa(cre.Count(h, n)) })
	add("CountString"+sn, strconv.Itoa(cnt), func() string { return strconv.Itoa(cre.CountString(s, n)) })
	// AppendAllIndex with four dst shapes
	pre := [][2]int{{7, 7}, {8, 9}}
	add("AppendAllIndex/nil"+sn, pairs(all), func() string { return pairs2(cre.AppendAllIndex(nil, h, n)) })
	add("AppendAllIndex/pre"+sn, pairs2(pre)[:len(pairs2(pre))-1]+pairs(all)[1:], func() string {
		d := append([][2]int(nil), pre...)
		return pairs2(cre.AppendAllIndex(d, h, n))
	})
	add("AppendAllIndex/spare"+sn, pairs2(pre)[:len(pairs2(pre))-1]+pairs(all)[1:], func() string {
		d := make([][2]int, 2, 64)
		copy(d, pre)
		return pairs2(cre.AppendAllIndex(d, h, n))
	})
	add("AppendAllStringIndex/empty"+sn, pairs(all), func() string { return pairs2(cre.AppendAllStringIndex(make([][2]int, 0, 4), s, n)) })
	if n == -1 {
		add("AllIndex", pairs(allNeg), func() string {
			var a [][2]int
			for m := range cre.AllIndex(h) {
				a = append(a, m)
			}
			return pairs2(a)
		})
		add("AllStringIndex", pairs(allNeg), func() string {
			var a [][2]int
			for m := range cre.AllStringIndex(s) {
				a = append(a, m)
			}
			return pairs2(a)
		})
		add("All", obs.Bytes2(std.FindAll(h, -1)), func() string {
			var a [][]byte
			for m := range cre.All(h) {
				a = append(a, m)
			}
			return obs.Bytes2(a)
		})
		add("AllString", obs.Strs(std.FindAllString(s, -1)), func() string {
			var a []string
			for m := range cre.AllString(s) {
				a = append(a, m)
			}
			return obs.Strs(a)
		})
		// early break after 2, then full re-iteration
		k := min(2, len(allNeg))
		add("AllIndex/break", pairs(allNeg[:k])+pairs(allNeg), func() string {
			var a, b [][2]int
			for m := range cre.AllIndex(h) {
				if len(a) == 2 {
					break
				}
				a = append(a, m)
			}
			for m := range cre.AllIndex(h) {
				b = append(b, m)
			}
			return pairs2(a) + pairs2(b)
		})
	}
	if eng != nil {
		add("Engine.Count"+sn, strconv.Itoa(cnt), func() string { return strconv.Itoa(eng.Count(h, n)) })
		if n != 0 {
			add("Engine.FindAllIndicesStreaming"+sn, pairs(all), func() string { return pairs2(eng.FindAllIndicesStreaming(h, n, nil)) })
		}
		sub := std.FindAllSubmatchIndex(h, n)
		add("Engine.FindAllSubmatch"+sn, obs.Ints2(sub), func() string {
			ms := eng.FindAllSubmatch(h, n)
			if ms == nil {
				return "nil"
			}
			var out [][]int
			for _, m := range ms {
				var v []int
				for g := 0; g < m.NumCaptures(); g++ {
					idx := m.GroupIndex(g)
					if idx == nil {
						v = append(v, -1, -1)
					} else {
						v = append(v, idx[0], idx[1])
					}
				}
				out = append(out, v)
			}
			return obs.Ints2(out)
		})
	}
	return
}
