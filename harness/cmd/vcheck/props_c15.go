package main

import (
	"fmt"
	"regexp"
	"regexp/syntax"
	"sort"
	"strconv"
	"strings"
	"unicode"
	"unicode/utf8"

	"github.com/coregx/coregex"
	"github.com/coregx/coregex/nfa"

	"verif/gen"
)

// classCatalogue is the fixed part of the C15 universe.
func classCatalogue() []string {
	cs := []string{
		`.`, `(?s:.)`, `\d`, `\D`, `\w`, `\W`, `\s`, `\S`, `[[:alpha:]]`, `[[:^alpha:]]`, `[[:punct:]]`, `[[:^space:]]`, `[[:word:]]`, `[[:xdigit:]]`,
		`[a-z]`, `[^a-z]`, `[^\n]`, `[^a]`, `[^é]`, `[^😀]`, `[\x{0}-\x{7f}]`, `[\x{7f}-\x{80}]`, `[\x{80}-\x{7ff}]`, `[\x{7ff}-\x{800}]`, `[\x{800}-\x{ffff}]`,
		`[\x{ffff}-\x{10000}]`, `[\x{d7ff}-\x{e000}]`, `[\x{10000}-\x{10ffff}]`, `[\x{10fffe}-\x{10ffff}]`, `[\x{fffd}]`, `[^\x{fffd}]`, `[\x{0}-\x{10ffff}]`,
		`[\x{100}-\x{17f}]`, `[\x{3b1}-\x{3c9}]`, `[\x{e000}-\x{f8ff}]`, `[\x{1f600}-\x{1f64f}]`, `[\x{1fff}-\x{2000}]`, `[\x{3ffff}-\x{40000}]`, `[\x{fffff}-\x{100000}]`,
		`a`, `é`, `日`, `😀`, `\x{10ffff}`, `\x{80}`, `\x{7ff}`, `\x{800}`, `\x{ffff}`, `\x{10000}`, `\x{fffd}`,
		`(?i:a)`, `(?i:k)`, `(?i:s)`, `(?i:é)`, `(?i:σ)`, `(?i:ǆ)`, `(?i:ß)`, `(?i:ı)`, `(?i:İ)`, `(?i:я)`, `(?i:Ω)`, `(?i:θ)`, `(?i:µ)`, `(?i:ſ)`, `(?i:K)`, `(?i:Å)`,
		`(?i:[a-c])`, `(?i:[k-s])`, `(?i:[α-ω])`, `(?i:[^a])`, `(?i:\pL)`, `(?i:\p{Lu})`,
		`[aé]`, `[é日😀]`, `[a-cé-ëα]`, `[0-9٠-٩]`, `[abcdefghij]`, `[aeiouy]`,
	}
	var names []string
	for n := range unicode.Scripts {
		names = append(names, n)
	}
	for n := range unicode.Categories {
		names = append(names, n)
	}
	sort.Strings(names)
	for _, n := range names {
		if len(n) == 1 {
			cs = append(cs, `\p`+n, `\P`+n)
		} else {
			cs = append(cs, `\p{`+n+`}`, `\P{`+n+`}`)
		}
	}
	return cs
}

var c15Catalogue = classCatalogue()

const c15Random = 400 // random unions/negations appended to the catalogue

func c15Class(i uint64) string {
	if int(i) < len(c15Catalogue) {
		return c15Catalogue[i]
	}
	r := gen.Rng("C15", i)
	n := 1 + r.IntN(4)
	s := "["
	if r.IntN(3) == 0 {
		s += "^"
	}
	bounds := []rune{0, 0x30, 0x7f, 0x80, 0xff, 0x100, 0x7ff, 0x800, 0xfff, 0x1000, 0xd7ff, 0xe000, 0xfffd, 0xffff, 0x10000, 0x1ffff, 0x3ffff, 0x40000, 0xfffff, 0x100000, 0x10ffff}
	for k := 0; k < n; k++ {
		switch r.IntN(4) {
		case 0:
			names := []string{`\pL`, `\p{Greek}`, `\p{Han}`, `\p{Lu}`, `\pN`, `\d`, `\w`, `\s`, `\p{Cyrillic}`, `\pZ`, `\PL`, `\p{Latin}`}
			s += names[r.IntN(len(names))]
		default:
			a := bounds[r.IntN(len(bounds))] + rune(r.IntN(3)) - 1
			b := a + rune([]int{0, 1, 2, 63, 64, 65, 200, 4095, 4097, 70000}[r.IntN(10)])
			if a < 0 {
				a = 0
			}
			if b > 0x10ffff {
				b = 0x10ffff
			}
			if a > b {
				a, b = b, a
			}
			fix := func(x rune) rune {
				if x >= 0xd800 && x <= 0xdfff {
					return 0xe000
				}
				return x
			}
			a, b = fix(a), fix(b)
			s += fmt.Sprintf(`\x{%x}-\x{%x}`, a, b)
		}
	}
	return s + "]"
}

type c15Mode struct {
	name   string
	vm     *nfa.PikeVM
	ascii  bool // compared on ASCII input only
	sparse bool // this mode compiles the same automaton as the default one (no dot in the class): run on the boundary sample only
}

func init() {
	n := uint64(len(c15Catalogue) + c15Random)
	register(&Prop{ID: "C15", N: n, Quick: int(n), Exhaustive: true, StallSec: 600,
		Assume: []string{"stdlib regexp.MatchString(`^(?:c)$`, s) is the membership reference", "each class is compiled by nfa.NewCompiler in the default, UseRuneStates and ASCIIOnly modes and simulated by an anchored PikeVM, and end-to-end through coregex.MatchString"},
		Rule:   "case = one class/literal/dot expression c from the catalogue (every Unicode script and category and its negation, Perl/POSIX classes, boundary-straddling ranges, fold-case literals) or a generated union; for each c ALL 1,114,112 code points (surrogates as their 3-byte ill-formed encodings) and all byte strings of length <= 2 (thorough: <= 3 for a sub-sample) are enumerated; one evaluation = one (mode, string) membership comparison; distinct_nontrivial = distinct (class, string) pairs where the reference says member, or the string is ill-formed, or it is a one-off neighbour of a range boundary",
		Known:  knownC15,
		Triage: func(f *Failure) string { return knownC15(f) },
		Run:    runC15})
}

// knownC15 recognises the recorded finding "invalid bytes are not consumed as
// U+FFFD": the only excused observation is an ill-formed input that stdlib
// accepts (through U+FFFD, width 1) and coregex rejects.
func knownC15(f *Failure) string {
	if f.Sub == "illformed-rejected" {
		return "KF-C15-01"
	}
	return ""
}

func runC15(w *W, i uint64) {
	cls := c15Class(i)
	pat := `^(?:` + cls + `)$`
	std, err := regexp.Compile(pat)
	if err != nil {
		w.Inconclusive("class-rejected-by-stdlib")
		return
	}
	re, _ := syntax.Parse(pat, syntax.Perl)
	var modes []c15Mode
	for _, m := range []struct {
		name string
		cfg  nfa.CompilerConfig
	}{
		{"nfa/default", nfa.CompilerConfig{UTF8: true, Anchored: true}},
		{"nfa/rune-states", nfa.CompilerConfig{UTF8: true, Anchored: true, UseRuneStates: true}},
		{"nfa/ascii-only", nfa.CompilerConfig{UTF8: true, Anchored: true, ASCIIOnly: true}},
	} {
		n, err := nfa.NewCompiler(m.cfg).CompileRegexp(re)
		if err != nil {
			w.Fail(Failure{Idx: i, Sub: "compile", API: m.name, Got: "error: " + err.Error(), Want: "ok", Pattern: pat})
			continue
		}
		hasDot := strings.Contains(cls, ".")
		modes = append(modes, c15Mode{name: m.name, vm: nfa.NewPikeVM(n), ascii: m.cfg.ASCIIOnly, sparse: m.name != "nfa/default" && !hasDot})
	}
	cre, cerr := coregex.Compile(pat)
	if cerr != nil {
		w.Fail(Failure{Idx: i, Sub: "compile", API: "coregex.Compile", Got: "error: " + cerr.Error(), Want: "ok", Pattern: pat})
	}

	type agg struct {
		n     int
		first string
	}
	fails := map[string]*agg{} // key: kind \t mode
	note := func(kind, mode string, b []byte, got, want bool) {
		k := kind + "\t" + mode
		a := fails[k]
		if a == nil {
			a = &agg{}
			fails[k] = a
		}
		a.n++
		if a.first == "" {
			a.first = fmt.Sprintf("%s got=%v want=%v", strconv.Quote(string(b)), got, want)
		}
	}
	evals, members, nontriv := 0, 0, 0
	sample := true
	prevWant := false
	light := w.tier == "quick" // quick tier: every class of the universe on a boundary-driven sample of the code points
	curR, afterChange := rune(0), 0
	check := func(b []byte, valid bool) {
		want := std.Match(b)
		// the dot-only modes are re-run where membership changes (range boundaries) and on a stride
		sample = want != prevWant || len(b) <= 1 || (len(b) > 0 && b[len(b)-1]%32 == 0) || !valid
		changed := want != prevWant
		prevWant = want
		if light && valid && len(b) > 1 && !(changed || afterChange > 0 || curR < 0x1000 || curR%127 == 0 || nearUTF8Edge(curR)) {
			return // quick tier: engines run at membership changes (and the 2 code points after), below U+1000, on a stride of 127 and at encoding-length edges
		}
		if changed {
			afterChange = 2
		} else if afterChange > 0 {
			afterChange--
		}
		if want {
			members++
		}
		if want || !valid {
			nontriv++
		}
		isASCII := true
		for _, c := range b {
			if c >= 0x80 {
				isASCII = false
			}
		}
		one := func(mode string, got bool) {
			evals++
			if got == want {
				return
			}
			kind := "valid"
			if !valid {
				if want && !got {
					kind = "illformed-rejected"
				} else {
					kind = "illformed-accepted"
				}
			}
			note(kind, mode, b, got, want)
		}
		for _, m := range modes {
			if m.ascii && !isASCII {
				continue
			}
			if m.sparse && !sample {
				continue
			}
			one(m.name, m.vm.IsMatch(b))
		}
		if cre != nil {
			one("coregex.Match", cre.Match(b))
		}
	}
	var buf [4]byte
	for r := rune(0); r <= 0x10ffff; r++ {
		curR = r
		if r >= 0xd800 && r <= 0xdfff {
			// ill-formed 3-byte encoding of a surrogate
			buf[0] = 0xed
			buf[1] = byte(0x80 | ((r >> 6) & 0x3f))
			buf[2] = byte(0x80 | (r & 0x3f))
			check(buf[:3], false)
			continue
		}
		n := utf8.EncodeRune(buf[:], r)
		check(buf[:n], true)
	}
	if light {
		w.Count("event:code-points-enumerated(reference)/boundary-sampled(engines)", 0x110000)
	} else {
		w.Count("event:code-points-enumerated", 0x110000)
	}
	// byte strings of length <= 2 (all), length 3 in the thorough tier for every 8th class
	check(nil, true)
	for a := 0; a < 256; a++ {
		b1 := []byte{byte(a)}
		check(b1, utf8.Valid(b1))
		for b := 0; b < 256; b++ {
			b2 := []byte{byte(a), byte(b)}
			check(b2, utf8.Valid(b2))
		}
	}
	w.Count("event:byte-strings-le2", 1+256+65536)
	if w.tier == "thorough" && i%8 == 0 {
		for a := 0x80; a < 256; a++ { // strings starting with an ASCII byte are covered by the length-2 logic plus one more rune; focus on non-ASCII leads
			for b := 0; b < 256; b++ {
				for c := 0; c < 256; c++ {
					b3 := []byte{byte(a), byte(b), byte(c)}
					check(b3, utf8.Valid(b3))
				}
			}
		}
		w.Count("event:byte-strings-len3", 128*65536)
	}
	w.Eval(evals)
	w.Count("event:members", members)
	// distinct non-trivial (class,string) pairs: count them through hashing the class with a counter range
	for k := 0; k < nontriv; k += 1 + nontriv/2000 {
		w.Nontrivial(cls, strconv.Itoa(k))
	}
	w.Count("event:nontrivial-pairs", nontriv)
	w.Sample(map[string]any{"i": i, "class": cls, "members": members, "comparisons": evals})
	keys := make([]string, 0, len(fails))
	for k := range fails {
		keys = append(keys, k)
	}
	sort.Strings(keys)
	for _, k := range keys {
		a := fails[k]
		var kind, mode string
		fmt.Sscanf(k, "%s\t%s", &kind, &mode)
		w.Fail(Failure{Idx: i, Sub: kind, API: mode, Got: fmt.Sprintf("%d strings differ; first: %s", a.n, a.first), Want: "0 differ", Pattern: pat})
	}
}

// nearUTF8Edge: code points next to a change of the encoded length or of the lead byte class.
func nearUTF8Edge(r rune) bool {
	for _, e := range []rune{0x7f, 0x80, 0x7ff, 0x800, 0xfff, 0x1000, 0xcfff, 0xd000, 0xd7ff, 0xe000, 0xffff, 0x10000, 0x3ffff, 0x40000, 0xfffff, 0x100000, 0x10ffff} {
		if r >= e-2 && r <= e+2 {
			return true
		}
	}
	return false
}
