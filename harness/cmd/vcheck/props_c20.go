package main

import (
	"fmt"
	"regexp"
	"runtime"
	"sort"
	"strconv"
	"strings"
	"testing"

	"github.com/coregx/coregex"
	"github.com/coregx/coregex/dfa/lazy"
	"github.com/coregx/coregex/meta"
	"github.com/coregx/coregex/nfa"

	"verif/gen"
)

func init() {
	register(&Prop{ID: "C20", Witness: true, N: 30000, Quick: 600, Workers: 8,
		Assume: []string{"cache and visited-table sizes are read through DFACache.MemoryUsage()/Size(), DFA.CacheStats(), BacktrackerState.Visited and the verif-tagged hooks meta.Engine.VerifStateSizes / lazy.DFACache.VerifCapacity (state parked in the engine between searches)", "heap held = runtime.MemStats.HeapAlloc after two runtime.GC() calls in a worker that runs one case at a time (sync.Pool contents are dropped by GC, the engine's single GC-proof slot is not); tolerance 96 KiB + the configured cache capacities", "allocations per call = testing.AllocsPerRun(30, call) after a warm-up call (integer average, GOMAXPROCS(1))"},
		Rule:   "case = one pattern G(D,i). (a) direct lazy.DFA (forward and reverse NFA) under 4 index-chosen capacity/clear settings from {200,800,4Ki,64Ki} × MaxCacheClears {0,1,5,1000}: after EVERY one of ~60 searches over the case's haystacks and cache-churning random walks, MemoryUsage <= capacity + largest state. (b) direct BoundedBacktracker with one reused state over growing haystacks up to beyond CanHandle: len(Visited) <= MaxVisitedSize after every call. (c) Regex under default and small-cache configurations: after every 50 of 600 searches (shuffled APIs × haystacks) the parked state is read through the hook: every cache <= capacity + one state, visited <= limit; HeapAlloc after the warm-up (two sweeps over all API × haystack pairs) and after 600 further calls must differ by less than the tolerance. (d) Match, MatchString, Engine.IsMatch, Engine.FindIndices, Count, AllIndex, AppendAllIndex(buffer with capacity) must report 0 allocations per call on every haystack of the case; one evaluation = one size reading or one AllocsPerRun measurement; distinct_nontrivial = distinct (pattern, configuration, reading) where a cache held at least 2 states or a call was measured on a matching haystack",
		Run:    runC20})
}

func heapNow() uint64 {
	runtime.GC()
	runtime.GC()
	var m runtime.MemStats
	runtime.ReadMemStats(&m)
	return m.HeapAlloc
}

type c20agg struct {
	n     int
	first string
}

func runC20(w *W, i uint64) {
	c := gen.D(i)
	if _, err := regexp.Compile(c.Pattern); err != nil {
		return
	}
	caseStats(w, &c)
	r := gen.Rng("C20", i)
	re0, _ := gen.Valid(c.Pattern)
	alpha := gen.Alphabet(re0, c.Region)
	walk := func(n int) []byte {
		var b []byte
		for len(b) < n {
			b = append(b, alpha[r.IntN(len(alpha))]...)
		}
		return b
	}
	pool := append([][]byte(nil), c.Haystacks...)
	pool = append(pool, walk(500), walk(3000), walk(64), gen.Sample(r, re0, c.Region))
	if n0, err := nfa.NewDefaultCompiler().Compile(c.Pattern); err == nil && n0.States() > 300 {
		// with a tiny DFA cache every byte costs a cache clear and a start-state rebuild over the whole NFA state
		// set; ~2500 calls are made per case, so the haystacks are scaled to the automaton (a (?i)\W class has
		// thousands of states)
		limit := max(48, 150_000/n0.States())
		for k := range pool {
			if len(pool[k]) > limit {
				pool[k] = pool[k][:limit]
			}
		}
		w.Count("event:haystacks-scaled-to-nfa-size", 1)
	}
	fails := map[string]*c20agg{}
	bad := func(sub, api, format string, a ...any) {
		k := sub + "\t" + api
		g := fails[k]
		if g == nil {
			g = &c20agg{}
			fails[k] = g
		}
		g.n++
		if g.first == "" {
			g.first = fmt.Sprintf(format, a...)
		}
	}
	evals := 0

	// ---- (a) direct lazy DFA
	comp := nfa.NewDefaultCompiler()
	fwd, err := comp.Compile(c.Pattern)
	if err == nil {
		caps := []int{200, 800, 4096, 65536}
		clears := []int{0, 1, 5, 1000}
		var nfas []*nfa.NFA
		nfas = append(nfas, fwd)
		if rev := nfa.ReverseAnchored(fwd); rev != nil {
			nfas = append(nfas, rev)
		}
		for k := 0; k < 4; k++ {
			ci := int((i*7 + uint64(k)*5) % 16)
			cfg := lazy.DefaultConfig()
			cfg.CacheCapacityBytes = caps[ci%4]
			cfg.MaxCacheClears = clears[ci/4]
			cfg.UsePrefilter = false
			name := fmt.Sprintf("lazy cap=%d clears=%d", cfg.CacheCapacityBytes, cfg.MaxCacheClears)
			for dir, n := range nfas {
				d, err := lazy.CompileWithConfig(n, cfg)
				if err != nil {
					w.Count("event:lazy-compile-declined", 1)
					continue
				}
				cache := d.NewCache()
				maxStates, maxBytes := 0, 0
				for step := 0; step < 30; step++ {
					h := pool[r.IntN(len(pool))]
					api := ""
					v := callNoPanic(func() {
						if dir == 1 {
							api = "SearchReverse"
							d.SearchReverse(cache, h, 0, len(h))
							return
						}
						switch step % 4 {
						case 0:
							api = "Find"
							d.Find(cache, h)
						case 1:
							api = "SearchAt"
							d.SearchAt(cache, h, len(h)/3)
						case 2:
							api = "IsMatch"
							d.IsMatch(cache, h)
						default:
							api = "FindAt"
							d.FindAt(cache, h, len(h)/2)
						}
					})
					if v != "" {
						continue // panics are C07/C14's business
					}
					evals++
					capacity, stride, largest := cache.VerifCapacity()
					largest += stride * 4 // row 0 of the flat table is reserved (dead state) and billed by MemoryUsage
					mu := cache.MemoryUsage()
					if cache.Size() > maxStates {
						maxStates = cache.Size()
					}
					if mu > maxBytes {
						maxBytes = mu
					}
					if mu > capacity+largest {
						bad(name+[]string{" fwd", " rev"}[dir], "lazy."+api, "after step %d: MemoryUsage=%d states=%d > capacity %d + largest state %d (haystack %d bytes)", step, mu, cache.Size(), capacity, largest, len(h))
					}
				}
				if maxStates >= 2 {
					w.Nontrivial(c.Pattern, name, strconv.Itoa(dir))
				}
				w.Count("observed:lazy-cache-clears", cache.ClearCount())
				if maxBytes*2 > cfg.CacheCapacityBytes {
					w.Count("observed:lazy-cache-filled-over-half", 1)
				}
			}
		}
		// ---- (b) direct backtracker
		bt := nfa.NewBoundedBacktracker(fwd)
		st := nfa.NewBacktrackerState()
		limit := bt.MaxVisitedSize()
		sizes := []int{0, 10, 1000, 100, bt.MaxInputSize() - 1, bt.MaxInputSize(), bt.MaxInputSize() + 1, 50}
		for _, n := range sizes {
			if n < 0 || n > 300_000 {
				continue
			}
			h := walk(n)
			if len(h) > n {
				h = h[:n]
			}
			callNoPanic(func() { bt.SearchWithState(h, st) })
			callNoPanic(func() { bt.IsMatchWithState(h, st) })
			evals++
			if len(st.Visited) > limit {
				bad("backtracker", "SearchWithState", "len(Visited)=%d > MaxVisitedSize %d after a %d-byte haystack (CanHandle=%v)", len(st.Visited), limit, n, bt.CanHandle(n))
			}
			if !bt.CanHandle(n) {
				w.Count("observed:backtracker-declined-by-CanHandle", 1)
			}
		}
	}

	// ---- (c) Regex: parked state and heap
	type cfgT struct {
		name string
		cfg  *meta.Config
	}
	cfgs := []cfgT{{"default", nil}}
	for _, stn := range []uint32{4, 64} {
		cf := meta.DefaultConfig()
		cf.MaxDFAStates = stn
		cfgs = append(cfgs, cfgT{"MaxDFAStates=" + strconv.Itoa(int(stn)), &cf})
	}
	var reDefault *coregex.Regex
	for _, cf := range cfgs {
		var re *coregex.Regex
		var err error
		if cf.cfg == nil {
			re, err = coregex.Compile(c.Pattern)
			reDefault = re
		} else {
			re, err = coregex.CompileWithConfig(c.Pattern, *cf.cfg)
		}
		if err != nil {
			continue
		}
		eng := re.VerifEngine()
		buf := make([][2]int, 0, 4096)
		calls := []func(h []byte){
			func(h []byte) { re.Match(h) },
			func(h []byte) { re.FindIndex(h) },
			func(h []byte) { re.FindSubmatchIndex(h) },
			func(h []byte) { re.FindAllIndex(h, 5) },
			func(h []byte) { re.Count(h, -1) },
			func(h []byte) { buf = re.AppendAllIndex(buf[:0], h, 50) },
			func(h []byte) { re.ReplaceAll(h, nil) },
		}
		// warm-up: every (API, haystack) combination twice, so that later growth cannot be first-use allocation
		for round := 0; round < 2; round++ {
			for _, f := range calls {
				for _, h := range pool {
					callNoPanic(func() { f(h) })
				}
			}
		}
		heapWarm := heapNow()
		capSum := 0
		for step := 0; step < 600; step++ {
			h := pool[r.IntN(len(pool))]
			f := calls[r.IntN(len(calls))]
			if callNoPanic(func() { f(h) }) != "" {
				continue
			}
			if step%50 == 49 {
				sz, ok := eng.VerifStateSizes()
				evals++
				if !ok {
					w.Count("observed:parked-state-slot-empty", 1)
				} else {
					capSum = 0
					for _, cs := range sz.Caches {
						capSum += cs.CapacityBytes + cs.LargestStateBytes + cs.ReservedBytes
						if cs.States >= 2 {
							w.Nontrivial(c.Pattern, cf.name, cs.Name, strconv.Itoa(step))
						}
						if cs.Bytes > cs.CapacityBytes+cs.LargestStateBytes+cs.ReservedBytes {
							bad(cf.name, "parked/"+cs.Name, "after %d calls: %d bytes in %d states > capacity %d + largest state %d", step+1, cs.Bytes, cs.States, cs.CapacityBytes, cs.LargestStateBytes)
						}
					}
					if sz.VisitedLimit > 0 && sz.VisitedEntries > sz.VisitedLimit {
						bad(cf.name, "parked/visited", "after %d calls: %d visited entries > limit %d", step+1, sz.VisitedEntries, sz.VisitedLimit)
					}
					w.Count("observed:parked-state-readings", 1)
				}
			}
		}
		heapEnd := heapNow()
		evals++
		// tolerance: measurement noise + what the configured caches may legitimately gain after warm-up
		tol := uint64(96<<10) + uint64(min(capSum, 8<<20))
		if cf.cfg == nil {
			tol = uint64(96<<10) + uint64(min(capSum, 1<<20))
		}
		if heapEnd > heapWarm+tol {
			bad(cf.name, "heap-growth", "HeapAlloc after warm-up (2 sweeps of all API x haystack pairs) %d, after 600 more calls %d: grew by %d > tolerance %d", heapWarm, heapEnd, heapEnd-heapWarm, tol)
		}
		w.Count("observed:heap-comparisons", 1)
		runtime.KeepAlive(re)
	}

	// ---- (d) zero-allocation calls
	if reDefault != nil {
		re := reDefault
		eng := re.VerifEngine()
		buf := make([][2]int, 0, 1<<16)
		buf4 := make([][2]int, 0, 4)
		fixed16 := make([][2]int, 0, 16)
		for k, h := range pool {
			if len(h) > 4096 {
				continue
			}
			s := string(h)
			zero := []struct {
				name string
				f    func()
			}{
				{"Match", func() { re.Match(h) }},
				{"MatchString", func() { re.MatchString(s) }},
				{"Engine.IsMatch", func() { eng.IsMatch(h) }},
				{"Engine.FindIndices", func() { eng.FindIndices(h) }},
				{"Count", func() { re.Count(h, -1) }},
				{"AllIndex", func() {
					for range re.AllIndex(h) {
					}
				}},
				{"AppendAllIndex", func() { buf = re.AppendAllIndex(buf[:0], h, -1) }},
				{"AppendAllIndex(n=2,cap=4)", func() { buf4 = re.AppendAllIndex(buf4[:0], h, 2) }},
				// a caller that keeps ONE fixed buffer (it does not adopt the returned slice): sufficient for the 16 matches asked for
				{"AppendAllIndex(fixed buffer,cap=16,n=16)", func() { re.AppendAllIndex(fixed16[:0], h, 16) }},
			}
			matched := false
			callNoPanic(func() { matched = re.Match(h) })
			for _, z := range zero {
				if callNoPanic(z.f) != "" { // warm-up; panics belong to C07
					continue
				}
				a := testing.AllocsPerRun(30, z.f)
				evals++
				if matched {
					w.Nontrivial(c.Pattern, z.name, strconv.Itoa(k))
				}
				if a != 0 {
					for _, site := range allocSites(z.f) {
						bad("zero-alloc@"+site, z.name, "%.0f allocations per call on haystack %s (len %d, match=%v)", a, clip(strconv.Quote(s), 80), len(h), matched)
					}
				}
			}
		}
	}
	w.Eval(evals)
	w.Sample(map[string]any{"i": c.Index, "pattern": c.Pattern, "pool_haystacks": len(pool), "readings": evals})
	for k, g := range fails {
		sub, api := k, ""
		for q := 0; q < len(k); q++ {
			if k[q] == '\t' {
				sub, api = k[:q], k[q+1:]
			}
		}
		w.Fail(Failure{Idx: i, Sub: sub, API: api, Got: fmt.Sprintf("%d readings over the bound; first: %s", g.n, g.first), Want: "bounded / zero", Pattern: c.Pattern, Region: c.Region.String(), Family: c.Family, Strategy: strategyOf(c.Pattern)})
	}
}

// allocSites names the coregex call sites that allocate during f (memory profile with rate 1, diffed
// around 40 calls): innermost three coregex frames, line numbers stripped.
func allocSites(f func()) []string {
	old := runtime.MemProfileRate
	runtime.MemProfileRate = 1
	defer func() { runtime.MemProfileRate = old }()
	f()
	snapshot := func() map[string]int64 {
		runtime.GC()
		runtime.GC()
		n, _ := runtime.MemProfile(nil, true)
		recs := make([]runtime.MemProfileRecord, n+200)
		n, ok := runtime.MemProfile(recs, true)
		if !ok {
			return nil
		}
		m := map[string]int64{}
		for _, r := range recs[:n] {
			var names []string
			frames := runtime.CallersFrames(r.Stack())
			for {
				fr, more := frames.Next()
				if strings.HasPrefix(fr.Function, "github.com/coregx/coregex") {
					names = append(names, strings.TrimPrefix(fr.Function, "github.com/coregx/coregex/"))
				}
				if !more || len(names) >= 3 {
					break
				}
			}
			if len(names) > 0 {
				m[strings.Join(names, "<")] += r.AllocObjects
			}
		}
		return m
	}
	before := snapshot()
	for k := 0; k < 40; k++ {
		f()
	}
	after := snapshot()
	var sites []string
	for k, v := range after {
		if v-before[k] >= 20 {
			sites = append(sites, k)
		}
	}
	sort.Strings(sites)
	if len(sites) == 0 {
		sites = []string{"(site not identified)"}
	}
	return sites
}

func callNoPanic(f func()) (v string) {
	defer func() {
		if r := recover(); r != nil {
			v = fmt.Sprint("PANIC: ", r)
		}
	}()
	f()
	return ""
}
