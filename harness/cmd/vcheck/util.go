package main

import "unsafe"

func uintptrOf(b []byte) uintptr {
	if cap(b) == 0 {
		return 0
	}
	return uintptr(unsafe.Pointer(&b[:1][0]))
}
