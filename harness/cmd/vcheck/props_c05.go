package main

import (
	"bytes"
	"fmt"
	"math/rand/v2"
	"regexp"
	"regexp/syntax"
	"strconv"
	"strings"
	"time"

	"github.com/coregx/coregex"
	"github.com/coregx/coregex/nfa"

	"verif/cov"
	"verif/gen"
)

// Work bound of C05 as monitored: W(call) <= c05K * states(p) * (len(h)+1) + c05C0(states), W in executed
// coverage units of the library's Go code. The largest constant observed on the linear engines of the
// repaired tree is ~60 (capture search on the NFA simulation); see evidence "max_constant".
const (
	c05K       = 400
	c05Budget  = 300_000_000 // per call; a call still running beyond it is abandoned (process restart)
	c05Kc      = 60          // compile: W <= c05Kc * (len(p)+states)^2 + c05Cc
	c05Cc      = 3_000_000
	c05MaxRung = 65536
)

func c05C0(states int) uint64 { return 200_000 + 4_000*uint64(states) }

// adversarial patterns: nested quantifiers, overlapping adjacent classes, prefix/suffix/inner literal
// strategies with rescans, look-around, captures, alternations, small-cache thrashers.
var c05Patterns = []string{
	`([a-z])+[0-9]`, `[a-z]+[a-z]+[a-z]+[0-9]`, `[a-z]+[a-z]+[0-9]`, `(x+x+)+y`, `(a|aa)*b`, `(a*)*b`, `(a+)+$`, `(a|a)*c`, `(.*)*x`,
	`(\w+)\s(\w+)`, `\w+\s+\w+x`, `[a-z]+[0-9]{2}`, `[a-z]*[0-9]*[a-z]*x`, `\w+@\w+\.com`, `.*\.txt`, `.*\.txt$`, `(?m)^.*\.txt$`, `foo.*bar`, `.*foo.*bar.*baz`,
	`\b\w+\b`, `\b(\w+)\b\s+\b(\w+)\b`, `(?:a|b)*abb`, `[^a]*a[^a]*b`, `a.*b.*c`, `(\d+)-(\d+)`, `\d+\.\d+\.\d+\.\d+`, `^.*?foo`, `ab*c|abd*`, `(?i)hello|world|foo|bar`,
	`[ab]*a[ab]{12}`, `(?s).*a.{10}b`, `(a?){20}a{20}`, `(?:x|xy|xyz)+w`, `.*[^a]a$`, `.+@.+\..+`, `\s*\S+\s*=\s*\S+`, `(?:foo|bar|baz)+qux`, `[a-z]+ing\b`,
	`[a-c]+d|[a-c]+e`, `(?i)[a-z]+z9`, `x*y*z*w`, `(ab)*(ab)*(ab)*c`, `\pL+\d`, `[α-ω]+x`, `(é|e)+f`, `.*é.*日`, `a{2,}b{2,}c`, `(?:\w+\.)+com`, `^(?:[a-z0-9]+-)*[a-z0-9]+$`,
	`[0-9][a-z.]+\.txt`, `\d\w+\.com`, `[A-Z][a-z ]+\.`, `[0-9][a-z ]*keyword[a-z ]*[0-9]`, `(?m)^[0-9].*\.php$`, `#[a-z]+(?:foo|bar|baz)`, `\d+\.\d+`, `[0-9]+x[0-9]+`,
	`[a-z]+[0-9]+`, `[a-zA-Z]+[0-9]+[a-z]+`, `\d+\s+\w+`, `\w+\s+\w+`,
	`\d\w*-`, `\d+foo|\d+bar`, `\d+x[\dx]*[-+]`, `(?:\d+\.)+x`, `(?m)^.*\d\.php`, `(?m)^[ab].*\.php`, `\d[a-z0-9]*X`, `\pL+`,
	`error|warning|fatal|panic|critical|alert|emerg|notice|debug|trace|info`, `[0-9a-f]{8}-[0-9a-f]{4}`, `(?m)^\s*#.*$`, `(?m)^(\w+)=(.*)$`, `"(?:[^"\\]|\\.)*"`, `/\*.*?\*/`, `<[^>]+>`,
}

func init() {
	register(&Prop{ID: "C05", N: 6000, Quick: 60, QuickFixed: uint64(76*9 + 16), Build: "cover", StallSec: 300, Workers: 12,
		Assume: []string{"work = number of executed coverage units (Go basic blocks, -covermode=atomic) of all coregex packages between ClearCounters and WriteCounters around ONE call: a deterministic proxy for time; assembly kernels are not counted (the Go loops that call them are)", "the existential constant of the property is fixed for monitoring: K = 400 units per (NFA state x haystack byte) plus a start-up term 200000 + 4000*states; the repaired tree's largest observed constant is recorded in the evidence", "a finite ladder cannot decide 'for all n': the rule reports sustained super-linear growth over 16x size or a bound excess up to 64 KiB"},
		Rule:   "case i = (pattern, haystack family): patterns are 76 adversarial shapes (nested quantifiers, adjacent overlapping classes, reverse-suffix/inner/multiline, look-around, captures, alternations) and G(D,i) patterns (exemplars of all strategies and mutants); families: one-symbol run, two-symbol alternation, filler+literal, near-match (language sample without its last byte, repeated), sample repeated, longest pattern literal repeated without its context, seeded random walk over the pattern alphabet, digit runs, sample-per-line; ladder n = 64,128,...,65536 (quick: ...,8192); at every rung Match, FindIndex and FindSubmatchIndex are each called once on a warmed value, plus a cold FindIndex at 4096; violation if W > K*states*(n+1)+C0 at any rung, if the last four doubling ratios all exceed 2.4, or if a single call passes 3e8 units (the call is abandoned, the worker restarted); compile: limit families p_k (k up to 512) must satisfy W(Compile) <= 60*(len(p)+states)^2+3e6; one evaluation = one metered call; distinct_nontrivial = distinct (pattern, family, API, rung) with W above the 1e5 noise floor",
		Init: func(w *W) {
			if err := cov.Reset(); err != nil {
				w.Inconclusive("coverage counters are not available: " + err.Error())
				return
			}
			w.aux = true
		},
		Run: runC05})
}

// Index space: [0, P*F) is the fixed grid adversarial pattern x family (part of every quick run);
// [P*F, P*F+C) are the compile ladders; beyond that seeded variants of the grid (other alphabet symbols,
// other samples) alternate with G(D,i) patterns.
func c05Grid() uint64 { return uint64(len(c05Patterns) * len(c05Families)) }

func c05Case(i uint64) (pattern, src, fam string, compile bool) {
	P, F := uint64(len(c05Patterns)), uint64(len(c05Families))
	switch {
	case i < P*F:
		return c05Patterns[i%P], "adversarial-grid", c05Families[i/P], false
	case i < P*F+uint64(len(c05CompileFamilies)):
		return "", "compile", "", true
	}
	j := i - P*F - uint64(len(c05CompileFamilies))
	if j%3 != 2 {
		k := j/3*2 + j%3
		return c05Patterns[k%P], "adversarial-variant", c05Families[(k/P)%F], false
	}
	c := gen.D(i)
	return c.Pattern, "D/" + c.Family, c05Families[(j/3)%F], false
}

// longestLiteral returns the longest literal run of the AST.
func longestLiteral(re *syntax.Regexp) string {
	best := ""
	var walk func(*syntax.Regexp)
	walk = func(r *syntax.Regexp) {
		if r.Op == syntax.OpLiteral {
			if s := string(r.Rune); len(s) > len(best) {
				best = s
			}
		}
		for _, s := range r.Sub {
			walk(s)
		}
	}
	walk(re)
	return best
}

var c05Families = []string{"one-symbol", "two-symbols", "near-match", "sample-repeated", "literal-repeated", "random-walk", "digit-runs", "sample-per-line", "filler-literal"}

// c05Unit returns a generator h(n) for the family.
func c05Hay(fam string, r *rand.Rand, re *syntax.Regexp, region gen.Region) func(n int) []byte {
	alpha := gen.Alphabet(re, region)
	rep := func(unit []byte) func(int) []byte {
		if len(unit) == 0 {
			unit = []byte("a")
		}
		return func(n int) []byte {
			b := bytes.Repeat(unit, n/len(unit)+1)
			return b[:n]
		}
	}
	switch fam {
	case "one-symbol":
		return rep(alpha[r.IntN(len(alpha))])
	case "two-symbols":
		return rep(append(append([]byte(nil), alpha[r.IntN(len(alpha))]...), alpha[r.IntN(len(alpha))]...))
	case "near-match":
		s := gen.Sample(r, re, region)
		if len(s) > 0 {
			s = s[:len(s)-1]
		}
		return rep(s)
	case "sample-repeated":
		return rep(gen.Sample(r, re, region))
	case "literal-repeated":
		l := longestLiteral(re)
		if len(l) > 1 && r.IntN(2) == 0 {
			l = l[1:] // the literal without its first byte: near-candidates for the prefilter
		}
		return rep([]byte(l))
	case "filler-literal":
		// a short run of one alphabet symbol followed by the longest literal: candidates whose reverse/prefix
		// verification stays alive into the previous candidate (anti-quadratic fallbacks), e.g. "abc.txtabc.txt"
		f := alpha[r.IntN(len(alpha))]
		unit := bytes.Repeat(f, 1+r.IntN(3))
		return rep(append(unit, longestLiteral(re)...))
	case "digit-runs":
		return rep([]byte("0123456789.-"))
	case "sample-per-line":
		return rep(append(gen.Sample(r, re, region), '\n'))
	default: // random-walk
		seed := r.Uint64()
		return func(n int) []byte {
			rr := rand.New(rand.NewPCG(seed, 5))
			b := make([]byte, 0, n+8)
			for len(b) < n {
				b = append(b, alpha[rr.IntN(len(alpha))]...)
			}
			return b[:n]
		}
	}
}

// meter runs f under the work meter. ok=false: the call passed the budget and is still running.
func meter(f func()) (w uint64, ok bool) {
	cov.Reset()
	done := make(chan struct{})
	go func() { f(); close(done) }()
	tick := time.NewTicker(100 * time.Millisecond)
	defer tick.Stop()
	for {
		select {
		case <-done:
			w, _, _ = cov.Sum()
			return w, true
		case <-tick.C:
			if w, _, _ = cov.Sum(); w > c05Budget {
				return w, false
			}
		}
	}
}

func runC05(w *W, i uint64) {
	if w.aux == nil {
		return
	}
	p, src, fam, isCompile := c05Case(i)
	if isCompile {
		runC05Compile(w, i-c05Grid())
		return
	}
	if _, err := regexp.Compile(p); err != nil {
		return
	}
	re0, _ := gen.Valid(p)
	n0, err := nfa.NewDefaultCompiler().Compile(p)
	if err != nil {
		return
	}
	S := n0.States()
	if S > 3000 {
		w.Count("event:skipped-huge-nfa", 1)
		return
	}
	re, err := coregex.Compile(p)
	if err != nil {
		return
	}
	r := gen.Rng("C05", i)
	region := gen.ASCII
	if i%5 == 4 {
		region = gen.UTF8
	}
	hay := c05Hay(fam, r, re0, region)
	maxN := c05MaxRung
	if w.tier == "quick" {
		maxN = 8192
	}
	w.Count("family:"+fam, 1)
	w.Count("source:"+strings.SplitN(src, "/", 2)[0], 1)
	type apiT struct {
		name string
		f    func(h []byte)
	}
	apis := []apiT{
		{"Match", func(h []byte) { re.Match(h) }},
		{"FindIndex", func(h []byte) { re.FindIndex(h) }},
		{"FindSubmatchIndex", func(h []byte) { re.FindSubmatchIndex(h) }},
	}
	ladder := map[string][]uint64{}
	var sizes []int
	evals := 0
	maxConst := 0.0
	fail := func(kind, api string, n int, W uint64, note string) {
		w.Fail(Failure{Idx: i, Sub: fam, API: kind + "/" + api, Got: fmt.Sprintf("n=%d W=%d states=%d ladder=%v", n, W, S, ladder[api]), Want: fmt.Sprintf("W <= %d*states*(n+1)+%d and no sustained super-linear growth", c05K, c05C0(S)), Pattern: p, Haystack: strconv.Quote(string(hay(48))), Note: note, Strategy: strategyOf(p)})
	}
	// warm the value (lazy DFA construction, pools) on a small input of the same family
	for _, a := range apis {
		if _, ok := meter(func() { a.f(hay(256)) }); !ok {
			fail("budget", a.name, 256, c05Budget, "the warm-up call on 256 bytes passed the work budget and was abandoned")
			w.Eval(evals + 1)
			w.Abandon(i)
		}
	}
	stopped := map[string]bool{}
	for n := 64; n <= maxN; n *= 2 {
		h := hay(n)
		sizes = append(sizes, n)
		for _, a := range apis {
			if stopped[a.name] {
				continue
			}
			W, ok := meter(func() { a.f(h) })
			evals++
			ladder[a.name] = append(ladder[a.name], W)
			if !ok {
				fail("budget", a.name, n, W, "the call passed the work budget of 3e8 units and was abandoned")
				w.Eval(evals)
				w.Abandon(i)
			}
			if W >= 100_000 {
				w.Nontrivial(p, fam, a.name, strconv.Itoa(n))
			}
			k := float64(W) / float64(S*(n+1))
			if n >= 1024 && k > maxConst {
				maxConst = k
			}
			if W > uint64(c05K)*uint64(S)*uint64(n+1)+c05C0(S) {
				fail("bound", a.name, n, W, "work exceeds the linear bound")
				stopped[a.name] = true
				continue
			}
			if W > c05Budget/3 { // the next rung could pass the budget even when linear
				stopped[a.name] = true
				w.Count("event:ladder-stopped-by-budget", 1)
			}
		}
	}
	for _, a := range apis {
		l := ladder[a.name]
		if len(l) >= 5 && l[len(l)-1] >= 1_000_000 {
			sustained := true
			for k := len(l) - 4; k < len(l); k++ {
				if float64(l[k]) <= 2.4*float64(l[k-1]) {
					sustained = false
				}
			}
			if sustained {
				fail("growth", a.name, sizes[len(l)-1], l[len(l)-1], "the last four doublings each multiplied the work by more than 2.4")
			}
		}
	}
	// cold call on a fresh value
	if fresh, err := coregex.Compile(p); err == nil {
		h := hay(4096)
		W, ok := meter(func() { fresh.FindIndex(h) })
		evals++
		if !ok {
			fail("budget", "FindIndex(cold)", 4096, W, "cold call abandoned")
			w.Eval(evals)
			w.Abandon(i)
		}
		if W > uint64(c05K)*uint64(S)*4097+c05C0(S) {
			ladder["FindIndex(cold)"] = []uint64{W}
			fail("bound", "FindIndex(cold)", 4096, W, "first call on a fresh value exceeds the linear bound")
		}
	}
	w.Eval(evals)
	w.Count(fmt.Sprintf("max-constant-bucket:%s", constBucket(maxConst)), 1)
	w.Sample(map[string]any{"i": i, "pattern": p, "family": fam, "states": S, "sizes": sizes, "W_FindIndex": ladder["FindIndex"], "max_units_per_state_byte": fmt.Sprintf("%.1f", maxConst)})
}

func constBucket(k float64) string {
	switch {
	case k < 1:
		return "<1"
	case k < 5:
		return "1-5"
	case k < 20:
		return "5-20"
	case k < 60:
		return "20-60"
	case k < 150:
		return "60-150"
	default:
		return ">=150"
	}
}

// compile-time limit families
var c05CompileFamilies = []func(k int) string{
	func(k int) string { return "a{" + strconv.Itoa(min(k, 1000)) + "}" },
	func(k int) string { return "(ab|cd){" + strconv.Itoa(min(k, 400)) + "}" },
	func(k int) string { return "[a-z]{" + strconv.Itoa(min(k, 1000)) + "}x" },
	func(k int) string {
		kk := strconv.Itoa(min(k, 300))
		return "(?:a?){" + kk + "}a{" + kk + "}"
	},
	func(k int) string {
		d := min(k, 90)
		return strings.Repeat("(", d) + "a" + strings.Repeat(")", d)
	},
	func(k int) string {
		r := rand.New(rand.NewPCG(uint64(k), 9))
		return gen.ManyLiterals(r, k, k%2 == 0)
	},
	func(k int) string { return "(?i:" + strings.Repeat("hello", k/4+1) + ")" },
	func(k int) string {
		return `\d{` + strconv.Itoa(min(k, 1000)) + `}-\w{` + strconv.Itoa(min(k, 500)) + "}"
	},
	func(k int) string { return "(a{2}){" + strconv.Itoa(min(k, 400)) + "}" },
	func(k int) string { return "[αβγ]{" + strconv.Itoa(min(k, 500)) + "}" },
	func(k int) string { return ".{" + strconv.Itoa(min(k, 300)) + "}z" },
	func(k int) string { return strings.Repeat("a*", k) + "b" },
	func(k int) string { return strings.Repeat("(a|b)", k) },
	func(k int) string { return strings.Repeat(`\bx`, k) },
	func(k int) string { return "(?:" + strings.Repeat("a|", k) + "b)+c" },
	func(k int) string { return strings.Repeat("[a-c][^d]", k) },
}

func runC05Compile(w *W, i uint64) {
	f := c05CompileFamilies[int(i)%len(c05CompileFamilies)]
	var rows []string
	evals := 0
	maxK := 512
	if w.tier == "quick" {
		maxK = 256
	}
	for k := 4; k <= maxK; k *= 2 {
		p := f(k)
		if _, err := regexp.Compile(p); err != nil {
			continue
		}
		S := 0
		if n0, err := nfa.NewDefaultCompiler().Compile(p); err == nil {
			S = n0.States()
		}
		var cerr error
		W, ok := meter(func() { _, cerr = coregex.Compile(p) })
		evals++
		rows = append(rows, fmt.Sprintf("k=%d len=%d states=%d W=%d", k, len(p), S, W))
		size := uint64(len(p) + S)
		bound := uint64(c05Kc)*size*size + c05Cc
		if !ok || W > bound {
			w.Fail(Failure{Idx: i, Sub: "compile", API: "bound/Compile", Got: strings.Join(rows, "; "), Want: fmt.Sprintf("W <= %d*(len+states)^2+%d = %d", c05Kc, c05Cc, bound), Pattern: clip(p, 200)})
			if !ok {
				w.Eval(evals)
				w.Abandon(i)
			}
			break
		}
		if cerr == nil && W >= 100_000 {
			w.Nontrivial("compile", p)
		}
	}
	w.Eval(evals)
	w.Count("event:compile-ladders", 1)
	w.Sample(map[string]any{"i": i, "compile_ladder": rows})
}
