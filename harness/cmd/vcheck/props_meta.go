package main

import (
	"fmt"
	"regexp"
	"strconv"
	"strings"

	"github.com/coregx/coregex"
	"github.com/coregx/coregex/meta"

	"verif/gen"
	"verif/obs"
)

const (
	c09N     = 300000
	c09Quick = 25000
)

func compileObs(f func() (any, error)) (v string) {
	defer func() {
		if r := recover(); r != nil {
			v = "PANIC: " + fmt.Sprint(r)
		}
	}()
	_, err := f()
	if err != nil {
		return "error: " + err.Error()
	}
	return "ok"
}

func mustObs(f func()) (v string) {
	defer func() {
		if r := recover(); r != nil {
			if s, ok := r.(string); ok {
				v = "panic(string): " + s
			} else {
				v = fmt.Sprintf("panic(%T): %v", r, r)
			}
		}
	}()
	f()
	return "ok"
}

func init() {
	register(&Prop{ID: "C09", N: c09N, Quick: c09Quick, StallSec: 600, Assume: []string{"stdlib regexp of the pinned toolchain is the reference model", "pattern strings come from the indexed universe G(P,i): valid patterns, one-token mutations, token soup, nesting/repetition/size limit families, random bytes"},
		Rule:   "one case = one string offered to Compile/MustCompile/CompilePOSIX/MustCompilePOSIX on both sides plus, when accepted, every metadata accessor, Marshal/Unmarshal/Copy behaviour on probe haystacks, and a QuoteMeta round trip on a generated string; one evaluation = one compared observation; distinct_nontrivial = distinct pattern strings, counting a string as non-trivial when it is rejected by stdlib or is accepted and has a capture group, a literal prefix or a flag (plain accepted literals are trivial)",
		Triage: triageC09,
		Run:    runC09})

	register(&Prop{ID: "C10", Witness: true, N: diffN, Quick: 7000, Assume: stdAssume,
		Rule:   "cases G(D,i); for each, values in leftmost-longest mode (Longest() and CompilePOSIX where the pattern is POSIX-valid) are compared with stdlib in the same mode over Match/Find/FindSubmatch/FindAll/Replace/Split, and mode isolation is observed: Longest on a Copy or on a second value compiled from the same text must leave the first value's results unchanged and equal to stdlib's default-mode results; distinct_nontrivial = distinct (pattern, haystack) pairs where stdlib's longest-mode and default-mode FindSubmatchIndex differ or a match exists",
		Triage: triageDiff,
		Run:    runC10})

	register(&Prop{ID: "C11", Witness: true, N: diffN, Quick: 7000, Assume: []string{"no external oracle: relations between results of different methods of one compiled value (DESIGN Appendix C.1)", "cases G(D,i), all regions including ill-formed UTF-8"},
		Rule:   "cases G(D,i); for each (value, haystack) the relations R1-R20 between views are evaluated (Match⇔FindIndex, Find/FindString/group 0 = haystack sliced at FindIndex, string/[]byte/reader agreement, FindAll(n) prefix of FindAll(-1), Count/iterators/AppendAllIndex = FindAllIndex, FindAllSubmatch group 0 = FindAll, meta.Engine views = top level, FindIndicesAt/FindAt consistency at every offset); one evaluation = one relation instance; distinct_nontrivial = distinct (pattern, haystack) pairs with at least one match",
		Triage: triageC11,
		Run:    runC11})
}

func runC09(w *W, i uint64) {
	p, fam := gen.PString(i)
	w.Count("family:"+fam, 1)
	var std *regexp.Regexp
	var cre *coregex.Regex
	type pair struct{ api, want, got string }
	var ps []pair
	add := func(api, want, got string) { ps = append(ps, pair{api, want, got}) }

	sw := compileObs(func() (any, error) { r, e := regexp.Compile(p); std = r; return r, e })
	sg := compileObs(func() (any, error) { r, e := coregex.Compile(p); cre = r; return r, e })
	add("Compile", sw, sg)
	heavy := fam == "repeat" || fam == "nesting" || fam == "bigalt" || fam == "longlit"
	veryHeavy := utf8Cost(p) > 6000 // e.g. (\pL{20}){20}: seconds per Compile; POSIX parity is skipped for these
	if veryHeavy {
		w.Count("event:very-heavy-pattern(Compile parity only)", 1)
	}
	if !(heavy && sw == "ok") {
		add("MustCompile", mustObs(func() { regexp.MustCompile(p) }), mustObs(func() { coregex.MustCompile(p) }))
	}
	var stdP *regexp.Regexp
	var creP *coregex.Regex
	pw, pg := "skipped", "skipped"
	if !veryHeavy {
		pw = compileObs(func() (any, error) { r, e := regexp.CompilePOSIX(p); stdP = r; return r, e })
		pg = compileObs(func() (any, error) { r, e := coregex.CompilePOSIX(p); creP = r; return r, e })
		add("CompilePOSIX", pw, pg)
	}
	if !(heavy && pw == "ok") && !veryHeavy {
		add("MustCompilePOSIX", mustObs(func() { regexp.MustCompilePOSIX(p) }), mustObs(func() { coregex.MustCompilePOSIX(p) }))
	}
	if sw == "ok" {
		w.Count("event:stdlib-accepts", 1)
	} else {
		w.Count("event:stdlib-rejects", 1)
	}
	if pw == "ok" {
		w.Count("event:posix-accepts", 1)
	}
	nontrivial := sw != "ok"
	if std != nil && cre != nil && sg == "ok" {
		add("String", std.String(), obs.Call(func() string { return cre.String() }))
		add("NumSubexp", strconv.Itoa(std.NumSubexp()), obs.Call(func() string { return strconv.Itoa(cre.NumSubexp()) }))
		add("SubexpNames", obs.Strs(std.SubexpNames()), obs.Call(func() string { return obs.Strs(cre.SubexpNames()) }))
		names := append([]string{"", "nope", "n", "n1"}, std.SubexpNames()...)
		for _, nm := range names {
			add("SubexpIndex("+nm+")", strconv.Itoa(std.SubexpIndex(nm)), obs.Call(func() string { return strconv.Itoa(cre.SubexpIndex(nm)) }))
		}
		lp, lc := std.LiteralPrefix()
		add("LiteralPrefix", fmt.Sprintf("%q %v", lp, lc), obs.Call(func() string { a, b := cre.LiteralPrefix(); return fmt.Sprintf("%q %v", a, b) }))
		mt, _ := std.MarshalText()
		add("MarshalText", string(mt), obs.Call(func() string { b, e := cre.MarshalText(); return string(b) + errs(e) }))
		if std.NumSubexp() > 0 || lp != "" || strings.Contains(p, "(?") {
			nontrivial = true
		}
		// behaviour after UnmarshalText / Copy: same answers as the original on probes
		re0, _ := gen.Valid(p)
		if re0 != nil && len(p) < 300 && !heavy {
			r := gen.Rng("P-h", i)
			hs := gen.Haystacks(r, re0, gen.RegionOf(i), 3)
			var un coregex.Regex
			uerr := obs.Call(func() string { return errs(un.UnmarshalText([]byte(p))) })
			add("UnmarshalText", "", uerr)
			var cp *coregex.Regex
			obs.Call(func() string { cp = cre.Copy(); return "" })
			for k, h := range hs {
				base := obs.Call(func() string { return obs.Ints(cre.FindSubmatchIndex(h)) })
				if uerr == "" {
					add("Unmarshal/FindSubmatchIndex#"+strconv.Itoa(k), base, obs.Call(func() string { return obs.Ints(un.FindSubmatchIndex(h)) }))
				}
				if cp != nil {
					add("Copy/FindSubmatchIndex#"+strconv.Itoa(k), base, obs.Call(func() string { return obs.Ints(cp.FindSubmatchIndex(h)) }))
				} else {
					add("Copy", "non-nil", "nil")
				}
			}
		}
		if stdP != nil && creP != nil {
			lp, lc := stdP.LiteralPrefix()
			add("POSIX/LiteralPrefix", fmt.Sprintf("%q %v", lp, lc), obs.Call(func() string { a, b := creP.LiteralPrefix(); return fmt.Sprintf("%q %v", a, b) }))
			add("POSIX/String", stdP.String(), obs.Call(func() string { return creP.String() }))
		}
	}
	// QuoteMeta round trip on a generated string
	r := gen.Rng("P-q", i)
	q := gen.QString(r)
	qw := regexp.QuoteMeta(q)
	qg := obs.Call(func() string { return coregex.QuoteMeta(q) })
	add("QuoteMeta", qw, qg)
	// Compile(QuoteMeta(s)) must behave like stdlib's: same acceptance, and when
	// accepted it matches exactly s.
	stdQ, stdQErr := regexp.Compile(`\A(?:` + qw + `)\z`)
	var fullQ *coregex.Regex
	add("Compile(QuoteMeta)", compileObs(func() (any, error) { return stdQ, stdQErr }), compileObs(func() (any, error) { r, e := coregex.Compile(`\A(?:` + qg + `)\z`); fullQ = r; return r, e }))
	if stdQ != nil && fullQ != nil {
		add("QuoteMeta/full", obs.Ints(stdQ.FindStringIndex(q)), obs.Call(func() string { return obs.Ints(fullQ.FindStringIndex(q)) }))
		if emb, err := coregex.Compile(qg); err == nil {
			hay := "\x01" + q + "\x02" + q
			add("QuoteMeta/embedded", obs.Ints(regexp.MustCompile(qw).FindStringIndex(hay)), obs.Call(func() string { return obs.Ints(emb.FindStringIndex(hay)) }))
		}
		if len(q) > 0 {
			nb := []byte(q)
			nb[r.IntN(len(nb))] ^= 0x01
			add("QuoteMeta/neighbour", fmt.Sprint(stdQ.Match(nb)), obs.Call(func() string { return fmt.Sprint(fullQ.Match(nb)) }))
		}
	}
	w.Eval(len(ps))
	if nontrivial {
		w.Nontrivial(p)
	}
	w.Sample(map[string]any{"i": i, "family": fam, "pattern_q": strconv.Quote(clip(p, 120)), "stdlib_compile": clip(sw, 120)})
	for _, x := range ps {
		w.Count("api:"+apiBase(x.api), 1)
		if x.want != x.got {
			w.Fail(Failure{Idx: i, Sub: "-", API: x.api, Got: x.got, Want: x.want, Pattern: clip(p, 700), Family: fam, Region: "-", Note: "q=" + strconv.Quote(q)})
		}
	}
}

func errs(e error) string {
	if e == nil {
		return ""
	}
	return " error: " + e.Error()
}

// ---------------------------------------------------------------------------

func runC10(w *W, i uint64) {
	c := gen.D(i)
	std, err := regexp.Compile(c.Pattern)
	if err != nil {
		return
	}
	cre, err := coregex.Compile(c.Pattern)
	if err != nil {
		return // C01's Compile observation covers it
	}
	caseStats(w, &c)
	// snapshot of default-mode results before any Longest() anywhere
	stdDef := regexp.MustCompile(c.Pattern)
	snap := make([]string, len(c.Haystacks))
	for k, h := range c.Haystacks {
		snap[k] = obs.Call(func() string { return obs.Ints(cre.FindSubmatchIndex(h)) + obs.Ints2(cre.FindAllIndex(h, -1)) })
	}
	cp := cre.Copy()
	if cp != nil {
		cp.Longest()
	}
	other, _ := coregex.Compile(c.Pattern)
	if other != nil {
		other.Longest()
	}
	std.Longest()
	modes := []struct {
		name string
		s    *regexp.Regexp
		g    *coregex.Regex
	}{{"copy.Longest", std, cp}, {"other.Longest", std, other}}
	if sp, err := regexp.CompilePOSIX(c.Pattern); err == nil {
		if gp, err := coregex.CompilePOSIX(c.Pattern); err == nil {
			modes = append(modes, struct {
				name string
				s    *regexp.Regexp
				g    *coregex.Regex
			}{"CompilePOSIX", sp, gp})
			w.Count("event:posix-valid", 1)
		}
	}
	for k, h := range c.Haystacks {
		// isolation: first value unchanged and still equal to stdlib default
		after := obs.Call(func() string { return obs.Ints(cre.FindSubmatchIndex(h)) + obs.Ints2(cre.FindAllIndex(h, -1)) })
		wantDef := obs.Ints(stdDef.FindSubmatchIndex(h)) + obs.Ints2(stdDef.FindAllIndex(h, -1))
		got := []obs.Rec{{API: "isolation/unchanged", Val: after}}
		want := []obs.Rec{{API: "isolation/unchanged", Val: snap[k]}}
		compare(w, &c, "h"+strconv.Itoa(k), h, got, want, false)
		_ = wantDef
		ls := std.FindSubmatchIndex(h)
		ds := stdDef.FindSubmatchIndex(h)
		differs := obs.Ints(ls) != obs.Ints(ds)
		if differs {
			w.Count("event:longest-differs-from-first", 1)
		}
		for mi, m := range modes {
			if m.g == nil {
				continue
			}
			if mi == 1 && k >= 2 {
				continue // second value: two haystacks suffice
			}
			var wr, gr []obs.Rec
			wr = append(wr, obs.Exists(m.s, h)[:2]...)
			gr = append(gr, obs.Exists(m.g, h)[:2]...)
			wr = append(wr, obs.First(m.s, h)...)
			gr = append(gr, obs.First(m.g, h)...)
			wr = append(wr, obs.Submatch(m.s, h)...)
			gr = append(gr, obs.Submatch(m.g, h)...)
			wr = append(wr, obs.All(m.s, h, -1)...)
			gr = append(gr, obs.All(m.g, h, -1)...)
			if k < 2 {
				wr = append(wr, obs.All(m.s, h, 2)...)
				gr = append(gr, obs.All(m.g, h, 2)...)
				wr = append(wr, obs.Replace(m.s, h, c.Templates[0], -1)...)
				gr = append(gr, obs.Replace(m.g, h, c.Templates[0], -1)...)
			}
			for q := range wr {
				wr[q].API = m.name + "/" + wr[q].API
				gr[q].API = m.name + "/" + gr[q].API
			}
			compare(w, &c, "h"+strconv.Itoa(k), h, gr, wr, differs || ls != nil)
		}
		if k == 0 {
			w.Sample(map[string]any{"i": c.Index, "pattern": c.Pattern, "haystack_q": strconv.Quote(string(h)), "longest_want": obs.Ints(ls), "first_want": obs.Ints(ds)})
		}
	}
}

// ---------------------------------------------------------------------------

func runC11(w *W, i uint64) {
	c := gen.D(i)
	if _, err := regexp.Compile(c.Pattern); err != nil {
		return
	}
	re, err := coregex.Compile(c.Pattern)
	if err != nil {
		return
	}
	eng, err := meta.Compile(c.Pattern)
	if err != nil {
		return
	}
	caseStats(w, &c)
	for k, h := range c.Haystacks {
		relations(w, &c, k, h, re, eng)
	}
}

func relations(w *W, c *gen.Case, k int, h []byte, re *coregex.Regex, eng *meta.Engine) {
	s := string(h)
	sub := "h" + strconv.Itoa(k)
	n := 0
	rel := func(name, a, b string) {
		n++
		w.Count("relation:"+apiBase(name), 1)
		if a != b {
			w.Fail(Failure{Idx: c.Index, Sub: sub, API: name, Got: a, Want: b, Pattern: c.Pattern, Haystack: strconv.Quote(s),
				Strategy: eng.Strategy().String(), Region: c.Region.String(), Family: c.Family, Ref: pikeRef(c.Pattern, h)})
		}
	}
	C := obs.Call
	fi := C(func() string { return obs.Ints(re.FindIndex(h)) })
	loc := re.FindIndex(h)
	has := fmt.Sprint(loc != nil)
	// R1, R2
	rel("R1 Match", C(func() string { return fmt.Sprint(re.Match(h)) }), has)
	rel("R2 MatchString", C(func() string { return fmt.Sprint(re.MatchString(s)) }), has)
	rel("R2 MatchReader", C(func() string { return fmt.Sprint(re.MatchReader(obs.Reader(h))) }), has)
	rel("R2 Engine.IsMatch", C(func() string { return fmt.Sprint(eng.IsMatch(h)) }), has)
	// R3, R4
	wantText := "nil"
	wantStr := `""`
	if loc != nil && loc[0] >= 0 && loc[1] <= len(h) && loc[0] <= loc[1] {
		wantText = obs.Bytes(h[loc[0]:loc[1]]) // the haystack sliced at FindIndex (nil when the haystack is nil)
		wantStr = strconv.Quote(string(h[loc[0]:loc[1]]))
	}
	rel("R3 Find", C(func() string { return obs.Bytes(re.Find(h)) }), wantText)
	rel("R4 FindString", C(func() string { return strconv.Quote(re.FindString(s)) }), wantStr)
	if loc != nil {
		rel("R3 Find/alias", C(func() string {
			f := re.Find(h)
			if len(f) == 0 {
				return "ok"
			}
			if &f[0] == &h[loc[0]] {
				return "ok"
			}
			return "does not alias input"
		}), "ok")
	}
	// R5
	rel("R5 FindStringIndex", C(func() string { return obs.Ints(re.FindStringIndex(s)) }), fi)
	rel("R5 FindReaderIndex", C(func() string { return obs.Ints(re.FindReaderIndex(obs.Reader(h))) }), fi)
	// R6, R7
	smi := re.FindSubmatchIndex(h)
	g0 := "nil"
	if smi != nil && len(smi) >= 2 {
		g0 = fmt.Sprint(smi[:2])
	}
	rel("R6 FindSubmatchIndex[0:2]", g0, fi)
	smis := obs.Ints(smi)
	rel("R7 FindStringSubmatchIndex", C(func() string { return obs.Ints(re.FindStringSubmatchIndex(s)) }), smis)
	rel("R7 FindReaderSubmatchIndex", C(func() string { return obs.Ints(re.FindReaderSubmatchIndex(obs.Reader(h))) }), smis)
	rel("R7 FindSubmatch", C(func() string { return texts(re.FindSubmatch(h)) }), sliceGroups(h, smi))
	rel("R7 FindStringSubmatch", C(func() string { return obs.Strs(re.FindStringSubmatch(s)) }), sliceGroups(h, smi))
	// R8, R9
	all := re.FindAllIndex(h, -1)
	alls := obs.Ints2(all)
	head := "nil"
	if len(all) > 0 {
		head = fmt.Sprint(all[0])
	}
	rel("R8 FindAllIndex(-1)[0]", head, fi)
	for _, lim := range []int{0, 1, 2, len(all), len(all) + 1} {
		want := "nil"
		if lim > 0 && len(all) > 0 {
			want = obs.Ints2(all[:min(lim, len(all))])
		}
		rel("R9 FindAllIndex(n)", C(func() string { return obs.Ints2(re.FindAllIndex(h, lim)) }), want)
	}
	// R10: other FindAll variants through projection
	rel("R10 FindAllStringIndex", C(func() string { return obs.Ints2(re.FindAllStringIndex(s, -1)) }), alls)
	rel("R10 FindAll", C(func() string { return texts(re.FindAll(h, -1)) }), sliceAll(h, all))
	rel("R10 FindAllString", C(func() string { return obs.Strs(re.FindAllString(s, -1)) }), sliceAll(h, all))
	// R11
	asi := re.FindAllSubmatchIndex(h, -1)
	var proj [][]int
	for _, m := range asi {
		if len(m) >= 2 {
			proj = append(proj, m[:2])
		}
	}
	rel("R11 FindAllSubmatchIndex[i][0:2]", obs.Ints2(proj), alls)
	rel("R11 FindAllStringSubmatchIndex", C(func() string { return obs.Ints2(re.FindAllStringSubmatchIndex(s, -1)) }), obs.Ints2(asi))
	if len(asi) > 0 {
		rel("R11 FindAllSubmatchIndex[0]", fmt.Sprint(asi[0]), smis)
	}
	// R12
	rel("R12 Count", C(func() string { return strconv.Itoa(re.Count(h, -1)) }), strconv.Itoa(len(all)))
	rel("R12 CountString", C(func() string { return strconv.Itoa(re.CountString(s, -3)) }), strconv.Itoa(len(all)))
	rel("R12 Count(0)", C(func() string { return strconv.Itoa(re.Count(h, 0)) }), "0")
	rel("R12 Count(2)", C(func() string { return strconv.Itoa(re.Count(h, 2)) }), strconv.Itoa(min(2, len(all))))
	// R13
	rel("R13 AllIndex", C(func() string {
		var a [][]int
		for m := range re.AllIndex(h) {
			a = append(a, []int{m[0], m[1]})
		}
		return obs.Ints2(a)
	}), alls)
	rel("R13 AllString", C(func() string {
		var a []string
		for m := range re.AllString(s) {
			a = append(a, m)
		}
		return obs.Strs(a)
	}), sliceAll(h, all))
	// R14
	rel("R14 AppendAllIndex", C(func() string {
		d := [][2]int{{-5, -5}}
		d = re.AppendAllIndex(d, h, -1)
		if len(d) == 0 || d[0] != [2]int{-5, -5} {
			return "dst lost"
		}
		var a [][]int
		for _, m := range d[1:] {
			a = append(a, []int{m[0], m[1]})
		}
		return obs.Ints2(a)
	}), alls)
	// R15
	rel("R15 Engine.FindIndices", C(func() string {
		a, b, f := eng.FindIndices(h)
		if !f {
			return "nil"
		}
		return fmt.Sprint([]int{a, b})
	}), fi)
	rel("R15 Engine.Find", C(func() string {
		m := eng.Find(h)
		if m == nil {
			return "nil"
		}
		return fmt.Sprint([]int{m.Start(), m.End()})
	}), fi)
	rel("R15 Engine.FindAt(0)", C(func() string {
		m := eng.FindAt(h, 0)
		if m == nil {
			return "nil"
		}
		return fmt.Sprint([]int{m.Start(), m.End()})
	}), fi)
	// R16: FindIndicesAt vs FindAt at every offset (bounded)
	step := 1
	if len(h) > 64 {
		step = len(h)/48 + 1
	}
	for at := 0; at <= len(h); at += step {
		a := C(func() string {
			x, y, f := eng.FindIndicesAt(h, at)
			if !f {
				return "nil"
			}
			return fmt.Sprint([]int{x, y})
		})
		b := C(func() string {
			m := eng.FindAt(h, at)
			if m == nil {
				return "nil"
			}
			return fmt.Sprint([]int{m.Start(), m.End()})
		})
		rel("R16 FindIndicesAt==FindAt", a, b)
		cs := C(func() string {
			m := eng.FindSubmatchAt(h, at)
			if m == nil {
				return "nil"
			}
			return fmt.Sprint([]int{m.Start(), m.End()})
		})
		rel("R17 FindSubmatchAt[0]==FindIndicesAt", cs, a)
	}
	// R17
	rel("R17 Engine.FindSubmatch", C(func() string {
		m := eng.FindSubmatch(h)
		if m == nil {
			return "nil"
		}
		var v []int
		for g := 0; g < m.NumCaptures(); g++ {
			idx := m.GroupIndex(g)
			if idx == nil {
				v = append(v, -1, -1)
			} else {
				v = append(v, idx[0], idx[1])
			}
		}
		return fmt.Sprint(v)
	}), smis)
	// R18
	rel("R18 Engine.Count", C(func() string { return strconv.Itoa(eng.Count(h, -1)) }), strconv.Itoa(len(all)))
	rel("R18 Engine.FindAllIndicesStreaming", C(func() string {
		var a [][]int
		for _, m := range eng.FindAllIndicesStreaming(h, -1, nil) {
			a = append(a, []int{m[0], m[1]})
		}
		return obs.Ints2(a)
	}), alls)
	rel("R18 Engine.FindAllSubmatch", C(func() string {
		var a [][]int
		for _, m := range eng.FindAllSubmatch(h, -1) {
			a = append(a, []int{m.Start(), m.End()})
		}
		return obs.Ints2(a)
	}), alls)
	// R19
	rel("R19 ReplaceAllLiteral", C(func() string { return obs.Content(re.ReplaceAllLiteral(h, []byte("<>"))) }), obs.Content(splice(h, all, "<>")))
	rel("R19 ReplaceAllFunc/identity", C(func() string { return obs.Content(re.ReplaceAllFunc(h, func(b []byte) []byte { return b })) }), obs.Content(h))
	rel("R19 ReplaceAllString/$0", C(func() string { return strconv.Quote(re.ReplaceAllString(s, "${0}")) }), strconv.Quote(s))
	w.Eval(n)
	if loc != nil {
		w.Nontrivial(c.Pattern, s)
		w.Count("event:has-match", 1)
	}
	if k == 0 {
		w.Sample(map[string]any{"i": c.Index, "pattern": c.Pattern, "haystack_q": strconv.Quote(s), "FindIndex": fi, "relations_evaluated": n})
	}
}

// sliceGroups renders the texts of the groups of a submatch vector (a group
// that did not participate has the empty text, as in the string API).
func sliceGroups(h []byte, v []int) string {
	if v == nil {
		return "nil"
	}
	out := make([]string, len(v)/2)
	for g := range out {
		a, b := v[2*g], v[2*g+1]
		if a >= 0 && b >= a && b <= len(h) {
			out[g] = string(h[a:b])
		}
	}
	return obs.Strs(out)
}

func sliceAll(h []byte, all [][]int) string {
	if len(all) == 0 {
		return "nil"
	}
	out := make([]string, len(all))
	for q, m := range all {
		if m[0] >= 0 && m[1] >= m[0] && m[1] <= len(h) {
			out[q] = string(h[m[0]:m[1]])
		} else {
			out[q] = "<ill-formed span>"
		}
	}
	return obs.Strs(out)
}

// texts renders match texts by content (whether an empty text is a nil or an
// empty slice is not an observable the relations are about).
func texts(a [][]byte) string {
	if a == nil {
		return "nil"
	}
	out := make([]string, len(a))
	for q := range a {
		out[q] = string(a[q])
	}
	return obs.Strs(out)
}

func splice(h []byte, all [][]int, r string) []byte {
	var out []byte
	last := 0
	for _, m := range all {
		if m[0] < last || m[1] > len(h) || m[0] > m[1] {
			return []byte("<ill-formed match list>")
		}
		out = append(out, h[last:m[0]]...)
		out = append(out, r...)
		last = m[1]
	}
	return append(out, h[last:]...)
}
