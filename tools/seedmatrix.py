#!/usr/bin/env python3
"""Prints the seeded-change matrix (markdown) from /verif/seeded/*/meta.json and the recorded check runs."""
import json, os, re, glob
V=os.path.dirname(os.path.dirname(os.path.abspath(__file__)))
rows=[]
for d in sorted(glob.glob(V+'/seeded/*/')):
    name=os.path.basename(d.rstrip('/'))
    try: m=json.load(open(d+'meta.json'))
    except Exception: continue
    runs=[]
    for f in sorted(glob.glob(d+'run-*.log')):
        c,tier=re.match(r'run-(C\d+)-(\w+)\.log',os.path.basename(f)).groups()
        txt=open(f,errors='replace').read()
        v=len(re.findall(r'^VIOLATION',txt,re.M))
        runs.append(f"{c} {tier}: {'caught ('+str(v)+' VIOLATION lines)' if v else 'not caught'}")
    title=(m.get('title') or m.get('mechanism') or '')[:115].replace('|','/')
    files=', '.join(m.get('files',[]))[:80]
    note=m.get('status_note','')
    res='; '.join(runs) or 'not run'
    if note: res=(res+' — ' if runs else '')+note
    rows.append(f"| {name} ({files}) | {title} | {res} |")
print("| seeded change | what it breaks | result of the registered check(s) on the final machinery |\n|---|---|---|")
print("\n".join(rows))
