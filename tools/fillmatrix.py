#!/usr/bin/env python3
"""Replaces the table of DESIGN.md section 13.7 by the current output of tools/seedmatrix.py."""
import subprocess, os, re
V=os.path.dirname(os.path.dirname(os.path.abspath(__file__)))
tab=subprocess.check_output(['python3',V+'/tools/seedmatrix.py'],text=True).rstrip('\n')
s=open(V+'/DESIGN.md').read()
i=s.index('| seeded change | what it breaks | result of the registered')
j=s.index('\n\n',i)
s=s[:i]+tab+s[j:]
open(V+'/DESIGN.md','w').write(s)
print(tab.count('\n')-1,'rows')
