#!/bin/bash
cd /verif
for d in seeded/R2-*/; do
  n=$(basename $d); c=${n#R2-}; c=${c%%-*}
  rm -f $d/run-*.log
  out=$(tools/seedtest.sh $n quick $c 2>&1 | head -1)
  echo "$out"
  case "$out" in *"violations=0"*) timeout 5000 tools/seedtest.sh $n thorough $c 2>&1 | head -1 ;; esac
done
