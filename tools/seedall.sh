#!/bin/bash
# Runs every seeded change against the quick check of its property (and the thorough check when quick misses it).
cd /verif
for d in seeded/*/; do
  n=$(basename $d)
  [ -f $d/patch.diff ] || continue
  c=${n%%-*}
  case $n in C13-1) continue;; esac   # superseded by C13-1b (re-based)
  rm -f $d/run-*.log
  out=$(tools/seedtest.sh $n quick $c 2>&1 | head -1)
  echo "$out"
  case "$out" in
    *"violations=0"*) case $c in C09) tools/seedtest.sh $n quick C10 2>&1 | head -1;; esac
                      timeout 3000 tools/seedtest.sh $n thorough $c 2>&1 | head -1 ;;
  esac
done
