#!/bin/bash
# usage: tools/seedsome.sh C01 C02 ...  — like seedall.sh for the named properties
cd /verif
for c in "$@"; do
for d in seeded/$c-*/; do
  n=$(basename $d)
  [ -f $d/patch.diff ] || continue
  case $n in C13-1) continue;; esac
  rm -f $d/run-*.log
  out=$(tools/seedtest.sh $n quick $c 2>&1 | head -1)
  echo "$out"
  case "$out" in
    *"violations=0"*) case $c in C09) tools/seedtest.sh $n quick C10 2>&1 | head -1;; esac
                      timeout 3000 tools/seedtest.sh $n thorough $c 2>&1 | head -1 ;;
  esac
done
done
