#!/usr/bin/env python3
"""Writes /verif/MANIFEST.json from the table below (one row per property)."""
import json, subprocess, os
V = os.path.dirname(os.path.dirname(os.path.abspath(__file__)))

def hook_commits():
    out = subprocess.run(["git", "-C", "/repo", "log", "--format=%h %s"], capture_output=True, text=True).stdout
    return [l.split()[0] for l in out.splitlines() if l.split(" ", 1)[1].startswith("verif hooks")]

DIFF_NOTE = ("Trusted: Go's regexp (stdlib) as the specification of results; the case generator G (harness/gen, version-stamped); "
             "the exact known-findings lists under findings/ (a listed (case, API, digest) is reported as KNOWN-FINDING, everything else as VIOLATION).")
rows = [
 ("C01", "differential monitor: every boolean API vs stdlib regexp on generated (pattern, haystack) cases, child-process workers with crash/stall attribution",
  "Runtime differential monitoring over an indexed case universe (all strategies × mutants × three input regions). Exploration: held on the cases executed, nothing is claimed beyond them.", DIFF_NOTE, "7 C01"),
 ("C02", "differential monitor: first-match span APIs (Find, FindIndex, string/reader variants, Engine.FindIndices) vs stdlib regexp", "Same monitor family as C01 for leftmost-first spans; exploration over the indexed universe.", DIFF_NOTE, "7 C02"),
 ("C03", "differential monitor: capture offsets of all FindSubmatch* variants vs stdlib regexp", "Exploration; every capture group offset compared on each case.", DIFF_NOTE, "7 C03"),
 ("C04", "differential monitor: successive-match enumeration (FindAll*, Count, AppendAll*, iterators, Engine streaming) vs stdlib regexp for several n", "Exploration; whole result lists compared.", DIFF_NOTE, "7 C04"),
 ("C05", "deterministic work meter: Go coverage counters (-cover -covermode=atomic) cleared/read around single calls on doubling haystack ladders; bound and sustained-growth oracle; budget watchdog that abandons a runaway call",
  "Runtime monitoring of executed basic blocks as a time proxy on adversarial ladders up to 64 KiB; a finite ladder cannot decide the unbounded statement, it reports bound excess / sustained super-linear growth on what was run.",
  "Trusted: coverage instrumentation counts (assembly kernels uncounted); monitoring constant K=400 units per state×byte (largest observed constant is in the evidence).", "7 C05"),
 ("C06", "Go race detector (-race, GORACE log parsed per case) under barrier-released goroutines sharing one Regex + concurrent-vs-sequential result oracle",
  "Race detection and result equality on the interleavings that the stress workload produced (in-flight API overlaps are counted in the evidence); no claim about schedules not produced.",
  "Trusted: the race detector's happens-before tracking of the executed schedule; sequential result of the same call as specification.", "7 C06"),
 ("C07", "guard-page sanitizer (haystacks on PROT_READ pages flush against PROT_NONE pages, SetPanicOnFault), worker exit status/journal watchdog, well-formedness predicates on every API result, arbitrary pattern strings",
  "Runtime monitoring for panics, hangs, stray reads/writes and ill-formed results over arbitrary patterns and all input regions incl. haystacks up to 1 MiB.",
  "Trusted: mprotect/SIGSEGV delivery (self-tested by a deliberate over-read at start-up); stall watchdog of 240 s per case; red-zone limits as described in DESIGN.md.", "7 C07"),
 ("C08", "differential monitor: ReplaceAll*/Expand*/Split vs stdlib regexp over generated templates and n", "Exploration.", DIFF_NOTE, "7 C08"),
 ("C09", "differential monitor on arbitrary pattern strings: Compile/CompilePOSIX/MustCompile accept-reject parity with stdlib, metadata (NumSubexp, SubexpNames, SubexpIndex, String, LiteralPrefix, QuoteMeta, Marshal/Unmarshal, Copy)", "Exploration over 300 000 index-generated pattern strings.", DIFF_NOTE, "7 C09"),
 ("C10", "differential monitor: Longest()/CompilePOSIX results vs stdlib leftmost-longest", "Exploration.", DIFF_NOTE, "7 C10"),
 ("C11", "relational monitor: 19 relations between the views of one Regex (Match⇔Find≠nil, Find=h[FindIndex], string/byte/reader agreement, FindAll prefix relations, Count=len(FindAll)…) — no external oracle", "Exploration; relations checked on every case.", "Trusted: only the relation definitions (harness/cmd/vcheck/props_meta.go).", "7 C11"),
 ("C12", "metamorphic monitor: results under index-chosen meta.Config settings and three CPU-feature masks (GODEBUG cpu.*) vs default configuration and vs a directly driven PikeVM; per-case digests compared across processes", "Exploration over configuration grid samples.", "Trusted: nfa.PikeVM driven directly as 'plain NFA simulation'; x/sys/cpu honouring GODEBUG masks (recorded flags in evidence).", "7 C12"),
 ("C13", "history monitor: a long-lived Regex/Engine after every call of a 36-call history vs the same call on a freshly compiled value; small-cache configurations, GC, 16-bit generation wrap", "Exploration over histories.", "Trusted: fresh compilation as reference (no external oracle).", "7 C13"),
 ("C14", "per-engine differential monitor: PikeVM, BoundedBacktracker, lazy DFA (fwd/rev, capacity grid), one-pass DFA driven directly vs stdlib quantities", "Exploration.", DIFF_NOTE, "7 C14"),
 ("C15", "exhaustive-input monitor: compiled byte automata of a class catalogue + 400 random classes run on every one of the 1 114 112 code points (and all ≤2/≤3-byte strings) vs unicode tables", "Exhaustive over the input alphabet for each sampled class; sampling over classes.", "Trusted: Go's unicode/utf8 and regexp/syntax class tables.", "7 C15"),
 ("C16", "reference-model monitor: every prefilter implementation asked Find(h,s) at every start vs the one-line definition; haystacks flush against guard pages; CPU masks", "Exploration over literal sets and alignments.", "Trusted: naive definition min{i>=s: some literal is a prefix of h[i:]}.", "7 C16"),
 ("C17", "necessity monitor: extracted prefix/suffix/inner literal sequences vs sampled members of the pattern's language and stdlib matches", "Exploration.", "Trusted: language sampler + stdlib regexp.", "7 C17"),
 ("C18", "reference-model monitor with guard pages: SIMD primitives (memchr family, memmem, class/digit scans, IsASCII) vs scalar definitions at every alignment/length, three CPU masks", "Exhaustive over a bounded (length × alignment × position) grid.", "Trusted: scalar one-line definitions; mprotect guard pages.", "7 C18"),
 ("C19", "differential monitor on applicability-gated fast paths (CharClassSearcher, CompositeSearcher, CompositeSequenceDFA, BranchDispatcher, AnchoredLiteral, FirstBytes, strategy-selected engines at every offset) vs stdlib", "Exploration.", DIFF_NOTE, "7 C19"),
 ("C20", "resource monitors: lazy-DFA cache bytes vs capacity after every search, backtracker visited table vs cap, parked per-search state via verif hooks, HeapAlloc after warm-up vs after 600 more calls, testing.AllocsPerRun with memory-profile call-site attribution", "Runtime monitoring of sizes and allocations on generated histories.", "Trusted: runtime.MemStats/MemProfile, DFACache.MemoryUsage accounting, hooks meta.Engine.VerifStateSizes / lazy.DFACache.VerifCapacity.", "7 C20"),
]
checks = []
for pid, tech, text, note, ref in rows:
    checks.append({
        "property_id": pid,
        "quick_cmd": f"./run.sh check {pid} quick",
        "thorough_cmd": f"./run.sh check {pid} thorough",
        "evidence_file": f"/verif/evidence/{pid}.json",
        "replay_cmd_template": "./run.sh replay {path}",
        "engine": "vcheck",
        "level_claimed": {"category": "exploration", "text": text, "design_ref": "DESIGN.md §" + ref},
        "level_note": note,
        "technique": tech,
    })
m = {
    "version": 1,
    "setup_cmd": "./run.sh setup",
    "hooks": {
        "guard": "verif",
        "enable": "go build -tags verif (run.sh builds the harness module, which replaces github.com/coregx/coregex by /repo, with -tags verif; variants add -race or -cover)",
        "baseline_off_cmd": "cd /repo && GOFLAGS=-mod=mod GOPROXY=off go test -json -vet=off -count=1 -timeout 25m ./...",
        "source_commits": hook_commits(),
        "add_only": True,
    },
    "engines": [{"name": "vcheck", "path": "/verif/harness/cmd/vcheck", "serves_properties": [r[0] for r in rows],
                 "kind_free_text": "Go supervisor/worker runtime monitor: generated workloads executed against the real library in child processes under oracles (stdlib regexp, reference models, relations), the race detector, coverage counters, guard pages and memory statistics"}],
    "checks": checks,
    "notes": "Known findings: /verif/known-findings.txt + exact lists in /verif/findings/. Exit 2 = INCONCLUSIVE (instrument unavailable, stale case list).",
    "not_applicable": [],
}
json.dump(m, open(os.path.join(V, "MANIFEST.json"), "w"), indent=1)
print("wrote MANIFEST.json with", len(checks), "checks; hook commits", m["hooks"]["source_commits"])
