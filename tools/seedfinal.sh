#!/bin/bash
# Re-records, on the final machinery, the quick check of its property against every seeded change (both rounds).
cd /verif
for d in seeded/*/; do
  n=$(basename $d)
  [ -f $d/patch.diff ] || continue
  c=$(echo $n | grep -o 'C[0-9][0-9]' | head -1)
  case $n in C09-1|C10-2|C11-1|C13-1) continue;; esac   # superseded by the re-based …b variants
  case "$SKIP" in *$c*) continue;; esac
  rm -f $d/run-$c-quick.log
  tools/seedtest.sh $n quick $c 2>&1 | head -1
  case $n in C09-1b) tools/seedtest.sh $n quick C10 2>&1 | head -1;; esac
done
echo "=== seedfinal done $(date -u +%H:%M:%S)"
