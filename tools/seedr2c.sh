#!/bin/bash
cd /verif
for n in R2-C12-1 R2-C12-2 R2-C13-1 R2-C13-2 R2-C16-1 R2-C16-2 R2-C20-1 R2-C20-2; do
  c=${n#R2-}; c=${c%%-*}
  rm -f seeded/$n/run-*.log
  out=$(tools/seedtest.sh $n quick $c 2>&1 | head -1)
  echo "$out"
  case "$out" in *"violations=0"*) timeout 5000 tools/seedtest.sh $n thorough $c 2>&1 | head -1 ;; esac
done
