#!/bin/bash
# usage: tools/seedexplore.sh <seeded-name> <Cnn> <from> <to> — explore a range on the tree with the seeded change applied
cd /verif
name=$1; c=$2; from=$3; to=$4
if ! git -C /repo diff --quiet; then echo "/repo has uncommitted changes"; exit 2; fi
git -C /repo apply /verif/seeded/$name/patch.diff || { echo "$name: patch does not apply"; exit 2; }
trap 'git -C /repo checkout -- .' EXIT
./run.sh explore $c $from $to > work/seed-$name-$c.log 2>&1
echo "$name $c [$from,$to): $(grep "^$c baseline" work/seed-$name-$c.log | sed 's/.*failures=/failures=/')"
grep -A1 "^CLUSTER" work/seed-$name-$c.log | grep "e.g." | head -2 | cut -c1-330
