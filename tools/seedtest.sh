#!/bin/bash
# usage: tools/seedtest.sh <seeded-dir-name> <tier> <Cnn>...   — applies the seeded change to /repo, runs the checks, reverts.
cd /verif
name=$1; tier=$2; shift 2
if ! git -C /repo diff --quiet; then echo "/repo has uncommitted changes"; exit 2; fi
git -C /repo apply /verif/seeded/$name/patch.diff || { echo "patch does not apply"; exit 2; }
trap 'git -C /repo checkout -- .' EXIT
for c in "$@"; do
  t0=$(date +%s)
  ./run.sh check $c $tier > seeded/$name/run-$c-$tier.log 2>&1
  rc=$?
  v=$(grep -c "^VIOLATION" seeded/$name/run-$c-$tier.log)
  echo "$name $c $tier exit=$rc violations=$v secs=$(( $(date +%s) - t0 ))"
  grep "^VIOLATION" seeded/$name/run-$c-$tier.log | head -3 | cut -c1-300
done
